use renoir::prelude::*;
use std::sync::mpsc;
use std::time::Duration;

// An iterate loop whose body does NOT expand anything (shuffle + filter), fed with more
// single-element batches than the cycle head -> body -> feedback -> head can hold while the head
// is still forwarding its first pass. Expected: the job terminates.
fn run(n: u64, parallelism: u64) -> bool {
    let (tx, rx) = mpsc::channel();
    std::thread::spawn(move || {
        let env = StreamContext::new(RuntimeConfig::local(parallelism).unwrap());
        let s = env.stream_iter(0..n).batch_mode(BatchMode::single()).shuffle();
        let (state, out) = s.iterate(
            2,
            0u64,
            move |s, _| s.shuffle().filter(|x| x % 3 != 0),
            |d: &mut u64, x: u64| *d += x,
            |st: &mut u64, d: u64| *st += d,
            |_: &mut u64| true,
        );
        state.for_each(|_| {});
        let res = out.collect_vec();
        env.execute_blocking();
        tx.send(res.get().map(|v| v.len())).unwrap();
    });
    rx.recv_timeout(Duration::from_secs(30)).is_ok()
}

#[test]
fn small_first_pass_terminates() {
    assert!(run(20, 2));
}

#[test]
fn first_pass_beyond_cycle_capacity_terminates() {
    for round in 0..5 {
        assert!(run(5000, 2), "job did not terminate within 30 s (attempt {round})");
    }
}
