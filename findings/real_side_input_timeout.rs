// A side input merged into a replay body with the default (adaptive) batch mode; the loop condition
// is slow, so the batch timeout of the two-input Start expires between the end of a round and the
// decision about the next one.
use renoir::prelude::*;
use std::time::Duration;

#[test]
fn side_input_with_slow_loop_condition() {
    for _ in 0..3 {
        let env = StreamContext::new(RuntimeConfig::local(2).unwrap());
        let side = env.stream_iter(100..103).shuffle();
        let main = env.stream_iter(0..4).shuffle();
        let rounds = std::sync::Arc::new(std::sync::atomic::AtomicUsize::new(0));
        let r2 = rounds.clone();
        let out = main
            .replay(
                3,
                0i64,
                move |s, _| s.merge(side).map(|x| x as i64),
                |d: &mut i64, x: i64| *d += x,
                |st: &mut i64, d: i64| *st += d,
                move |_st: &mut i64| {
                    r2.fetch_add(1, std::sync::atomic::Ordering::SeqCst);
                    std::thread::sleep(Duration::from_millis(200));
                    true
                },
            )
            .collect_vec();
        env.execute_blocking();
        let v = out.get().unwrap();
        // every round sums 0+1+2+3 + 100+101+102 = 309
        assert_eq!(v, vec![3 * 309]);
    }
}
