use renoir::prelude::*;
use std::sync::mpsc;
use std::time::Duration;

// An iterate loop whose body expands one element into more batches than the feedback edge can
// hold (BatchMode::single(), one element -> 40 elements). Expected: the job terminates.
fn run(expand: u64) -> bool {
    let (tx, rx) = mpsc::channel();
    std::thread::spawn(move || {
        let env = StreamContext::new(RuntimeConfig::local(1).unwrap());
        let s = env.stream_iter(0..2u64).batch_mode(BatchMode::single()).shuffle();
        let (state, out) = s.iterate(
            2,
            0u64,
            move |s, _| s.flat_map(move |x| (0..expand).map(move |i| x * 100 + i).collect::<Vec<_>>()).filter(|x| *x < 1_000_000),
            |d: &mut u64, x: u64| *d += x,
            |st: &mut u64, d: u64| *st += d,
            |_: &mut u64| true,
        );
        state.for_each(|_| {});
        let res = out.collect_vec();
        env.execute_blocking();
        tx.send(res.get().map(|v| v.len())).unwrap();
    });
    rx.recv_timeout(Duration::from_secs(20)).is_ok()
}

#[test]
fn small_expansion_terminates() {
    assert!(run(2));
}

#[test]
fn expansion_beyond_feedback_capacity_terminates() {
    assert!(run(40), "job did not terminate within 20 s");
}
