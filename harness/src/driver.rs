//! Check driver: parent process that deals (scenario, shard) items to single-threaded worker
//! processes, merges their reports, writes evidence and replay files, applies known findings.
use std::collections::{HashSet, VecDeque};
use std::io::{BufRead, BufReader, Write};
use std::process::{Command, Stdio};
use std::sync::{Arc, Mutex};
use std::time::{Duration, Instant};

use serde_json::json;

use crate::rt::Status;
use crate::explore::{explore, parse_order, Scenario, ScenarioReport, Violation};
use crate::rt::{run_once, Ev};

#[derive(Clone, Copy, Debug, PartialEq, Eq)]
pub enum Tier {
    Quick,
    Thorough,
}

impl Tier {
    pub fn name(self) -> &'static str {
        match self {
            Tier::Quick => "quick",
            Tier::Thorough => "thorough",
        }
    }
    pub fn parse(s: &str) -> Tier {
        if s == "thorough" {
            Tier::Thorough
        } else {
            Tier::Quick
        }
    }
}

pub struct PropSpec {
    pub id: &'static str,
    pub build: fn(Tier) -> Vec<Scenario>,
    /// how cases are enumerated and what makes one non-trivial
    pub rule: &'static str,
    pub assumptions: &'static [&'static str],
    /// the enumerated space is finite and is covered completely when no cap is hit
    pub exhaustive_when_uncapped: bool,
    /// wall-clock budget in seconds (quick, thorough)
    pub budget_s: (u64, u64),
}

fn verif_dir() -> std::path::PathBuf {
    std::env::var("VERIF_DIR")
        .map(Into::into)
        .unwrap_or_else(|_| "/verif".into())
}

#[derive(serde::Deserialize, Debug, Clone)]
struct Finding {
    property: String,
    sig: String,
    status: String,
    what: String,
}

#[derive(serde::Deserialize, Debug, Default)]
struct Findings {
    #[serde(default)]
    findings: Vec<Finding>,
}

fn load_findings() -> Vec<Finding> {
    let p = verif_dir().join("known_findings.json");
    match std::fs::read_to_string(&p) {
        Ok(s) => serde_json::from_str::<Findings>(&s)
            .map(|f| f.findings)
            .unwrap_or_else(|e| {
                eprintln!("cannot parse {}: {e}", p.display());
                std::process::exit(2);
            }),
        Err(_) => vec![],
    }
}

fn sig_matches(pattern: &str, sig: &str) -> bool {
    match pattern.strip_suffix('*') {
        Some(pre) => sig.starts_with(pre),
        None => pattern == sig,
    }
}

/// The scenario list of a tier. In the thorough tier every job scenario with bound b >= 2 is
/// first explored with bound b-1 (cheap, completes everywhere) and only then with bound b, so
/// that a wall-clock cap cuts the deepest level, not whole scenarios.
pub fn scenario_list(spec: &PropSpec, tier: Tier) -> Vec<Scenario> {
    let mut base = (spec.build)(tier);
    if let Ok(only) = std::env::var("NV_ONLY") {
        // (experimentation aid: keep the scenarios whose name contains the given text)
        base.retain(|s| s.name.contains(&only));
    }
    if tier != Tier::Thorough {
        return base;
    }
    let mut first = vec![];
    for s in &base {
        if s.bound >= 2 && !s.unbounded && !s.loop_body {
            let mut c = s.clone();
            c.bound = s.bound - 1;
            c.name = format!("{}#d{}", s.name, c.bound);
            c.shards = 1;
            first.push(c);
        }
    }
    first.extend(base);
    first
}

/// Called by the watchdog thread of a worker: report the hang as a verdict of the scenario being
/// explored (replaying the recorded prefix, then the default choices, reproduces it) and leave.
fn worker_hang(name: String, descr: String, prefix: Vec<crate::rt::Point>, order: crate::rt::Order, silent: u64) -> ! {
    let rep = ScenarioReport {
        name: name.clone(),
        descr: descr.clone(),
        capped: true,
        hang: true,
        nontrivial: true,
        executions: 1,
        violations: vec![Violation {
            scenario: name,
            order: crate::explore::order_name(order).to_string(),
            choices: prefix,
            sig: "hang".to_string(),
            message: format!("{descr}: the job never terminates - an execution spent {silent} s of wall time without reaching a scheduling point (a task loops without touching a channel, lock, timer or thread; a step of these jobs takes microseconds)"),
        }],
        ..Default::default()
    };
    let mut out = std::io::stdout();
    let _ = writeln!(out, "{}", serde_json::to_string(&rep).unwrap());
    let _ = out.flush();
    std::process::exit(0);
}

pub fn worker(spec: &PropSpec, tier: Tier) {
    crate::rt::watchdog::start(worker_hang);
    let scenarios = scenario_list(spec, tier);
    let stdin = std::io::stdin();
    let mut out = std::io::stdout();
    for line in stdin.lock().lines() {
        let line = line.unwrap();
        let parts: Vec<&str> = line.split_whitespace().collect();
        if parts.first() == Some(&"quit") || parts.len() < 4 {
            break;
        }
        let si: usize = parts[0].parse().unwrap();
        let shard: usize = parts[1].parse().unwrap();
        let shards: usize = parts[2].parse().unwrap();
        let secs: u64 = parts[3].parse().unwrap();
        let deadline = if secs > 0 {
            Some(Instant::now() + Duration::from_secs(secs))
        } else {
            None
        };
        let mut sc = scenarios[si].clone();
        if let Some(b) = std::env::var("NV_BOUND_OVERRIDE").ok().and_then(|b| b.parse().ok()) {
            // (experimentation aid)
            sc.bound = b;
        }
        let rep = explore(&sc, shard, shards, deadline);
        writeln!(out, "{}", serde_json::to_string(&rep).unwrap()).unwrap();
        out.flush().unwrap();
    }
}

pub fn check(spec: &PropSpec, tier: Tier, seed: i64) -> i32 {
    let t0 = Instant::now();
    let scenarios = scenario_list(spec, tier);
    if scenarios.is_empty() {
        eprintln!("no scenarios for {}", spec.id);
        return 2;
    }
    let budget = match tier {
        Tier::Quick => spec.budget_s.0,
        Tier::Thorough => spec.budget_s.1,
    };
    let budget = std::env::var("NV_BUDGET_S")
        .ok()
        .and_then(|s| s.parse().ok())
        .unwrap_or(budget);
    let hard_deadline = t0 + Duration::from_secs(budget);
    // items, rotated by the seed so that a different scenario comes first
    let mut items: VecDeque<(usize, usize, usize)> = VecDeque::new();
    for (i, s) in scenarios.iter().enumerate() {
        for sh in 0..s.shards.max(1) {
            items.push_back((i, sh, s.shards.max(1)));
        }
    }
    if !items.is_empty() && tier == Tier::Quick {
        let r = (seed.unsigned_abs() as usize) % items.len();
        items.rotate_left(r);
    }
    let n_items = items.len();
    let workers: usize = std::env::var("NV_WORKERS")
        .ok()
        .and_then(|s| s.parse().ok())
        .unwrap_or_else(|| {
            std::thread::available_parallelism()
                .map(|n| n.get())
                .unwrap_or(4)
        })
        .min(n_items)
        .max(1);
    let queue = Arc::new(Mutex::new(items));
    let results: Arc<Mutex<Vec<ScenarioReport>>> = Default::default();
    let errors: Arc<Mutex<Vec<String>>> = Default::default();
    let exe = std::env::current_exe().unwrap();
    let mut hs = vec![];
    for _ in 0..workers {
        let queue = queue.clone();
        let results = results.clone();
        let errors = errors.clone();
        let exe = exe.clone();
        let id = spec.id.to_string();
        hs.push(std::thread::spawn(move || 'respawn: loop {
            let mut child = match Command::new(&exe)
                .args(["worker", &id, tier.name()])
                .stdin(Stdio::piped())
                .stdout(Stdio::piped())
                .stderr(Stdio::null())
                .spawn()
            {
                Ok(c) => c,
                Err(e) => {
                    errors.lock().unwrap().push(format!("cannot spawn worker: {e}"));
                    return;
                }
            };
            let mut cin = child.stdin.take().unwrap();
            let mut cout = BufReader::new(child.stdout.take().unwrap());
            loop {
                let item = queue.lock().unwrap().pop_front();
                let Some((si, sh, k)) = item else { break };
                let left = hard_deadline.saturating_duration_since(Instant::now()).as_secs();
                if left == 0 {
                    // budget exhausted: leave the rest unexplored, reported as a cap
                    errors.lock().unwrap().push(format!("CAP:item {si}/{sh} not started (budget)"));
                    continue;
                }
                if writeln!(cin, "{si} {sh} {k} {}", left.max(1)).is_err() {
                    errors.lock().unwrap().push("worker stdin closed".into());
                    break;
                }
                let mut line = String::new();
                match cout.read_line(&mut line) {
                    Ok(n) if n > 0 => match serde_json::from_str::<ScenarioReport>(&line) {
                        Ok(r) => {
                            let hang = r.hang;
                            results.lock().unwrap().push(r);
                            if hang {
                                // that worker has left (its watchdog reported a hang): the rest
                                // of the queue goes to a fresh one
                                drop(cin);
                                let _ = child.kill();
                                let _ = child.wait();
                                continue 'respawn;
                            }
                        }
                        Err(e) => {
                            errors.lock().unwrap().push(format!("bad worker output: {e}"));
                            break;
                        }
                    },
                    _ => {
                        errors
                            .lock()
                            .unwrap()
                            .push(format!("worker died while exploring item {si}/{sh}"));
                        break;
                    }
                }
            }
            let _ = writeln!(cin, "quit");
            drop(cin);
            let _ = child.wait();
            break;
        }));
    }
    for h in hs {
        let _ = h.join();
    }
    let results = std::mem::take(&mut *results.lock().unwrap());
    let mut errors = std::mem::take(&mut *errors.lock().unwrap());
    let caps_not_started = errors.iter().filter(|e| e.starts_with("CAP:")).count();
    errors.retain(|e| !e.starts_with("CAP:"));

    // merge
    let mut execs = 0usize;
    let mut steps = 0usize;
    let mut points = 0usize;
    let mut capped = caps_not_started > 0;
    let mut cases = 0usize;
    let mut nontrivial_cases = 0usize;
    let mut obs: HashSet<u64> = HashSet::new();
    let mut violations: Vec<Violation> = vec![];
    let mut machinery: Vec<String> = errors;
    let mut nontrivial: HashSet<String> = HashSet::new();
    let mut per: std::collections::BTreeMap<String, (usize, usize, usize, bool, usize, f64, String)> =
        Default::default();
    for r in &results {
        execs += r.executions;
        steps += r.steps;
        points += r.choice_points;
        capped |= r.capped;
        cases += r.cases;
        nontrivial_cases += r.nontrivial_cases;
        obs.extend(r.obs.iter().copied());
        machinery.extend(r.machinery_errors.iter().cloned());
        for v in &r.violations {
            if !violations.iter().any(|x| x.sig == v.sig) {
                violations.push(v.clone());
            }
        }
        if r.nontrivial {
            nontrivial.insert(r.name.clone());
        }
        let e = per.entry(r.name.clone()).or_insert((
            0,
            0,
            0,
            false,
            r.bound,
            0.0,
            r.descr.clone(),
        ));
        e.0 += r.executions;
        e.1 += r.steps;
        e.2 = e.2.max(r.max_points);
        e.3 |= r.capped;
        e.5 += r.wall_s;
    }
    // a hang reported by a worker's watchdog is confirmed like every other violation: the recorded
    // prefix is replayed in a fresh process under the same watchdog; a stall that does not come
    // back (the machine, not the job) is noted and dropped
    let mut unconfirmed_stalls = 0usize;
    violations.retain(|v| {
        if v.sig != "hang" {
            return true;
        }
        let tmp = std::env::temp_dir().join(format!("nv-hang-{}-{}.json", std::process::id(), unconfirmed_stalls));
        let doc = json!({"property": spec.id, "tier": tier.name(), "scenario": v.scenario, "order": v.order, "choices": v.choices, "sig": v.sig, "message": v.message});
        let _ = std::fs::write(&tmp, serde_json::to_string(&doc).unwrap());
        let out = Command::new(&exe).args(["replay", tmp.to_str().unwrap()]).stderr(Stdio::null()).output();
        let _ = std::fs::remove_file(&tmp);
        let confirmed = matches!(&out, Ok(o) if o.status.code() == Some(1) && String::from_utf8_lossy(&o.stdout).contains("replay: hang"));
        if !confirmed {
            unconfirmed_stalls += 1;
            eprintln!("  note: {} :: a stall of a worker did not reproduce on replay (machine load); dropped", v.scenario);
        }
        confirmed
    });
    // distinct observations per scenario are not kept apart across shards; report the global set
    let findings = load_findings();
    let mut known_seen: Vec<&Finding> = vec![];
    let mut new_violations: Vec<&Violation> = vec![];
    for v in &violations {
        match findings
            .iter()
            .find(|f| f.property == spec.id && f.status == "known" && sig_matches(&f.sig, &v.sig))
        {
            Some(f) => {
                if !known_seen.iter().any(|k| k.sig == f.sig) {
                    known_seen.push(f);
                }
            }
            None => new_violations.push(v),
        }
    }
    // replay files for new violations
    let rdir = verif_dir().join("replays");
    let _ = std::fs::create_dir_all(&rdir);
    let mut lines = vec![];
    for (i, v) in new_violations.iter().enumerate() {
        let path = rdir.join(format!("{}-{}-{}.json", spec.id, tier.name(), i));
        let doc = json!({
            "property": spec.id,
            "tier": tier.name(),
            "scenario": v.scenario,
            "order": v.order,
            "choices": v.choices,
            "sig": v.sig,
            "message": v.message,
        });
        let _ = std::fs::write(&path, serde_json::to_string_pretty(&doc).unwrap());
        lines.push(format!(
            "VIOLATION property={} replay={}",
            spec.id,
            path.display()
        ));
        eprintln!("  {} :: {} :: {}", v.scenario, v.sig, v.message);
    }
    for f in &known_seen {
        println!("KNOWN-FINDING: property={} {} [{}]", spec.id, f.what, f.sig);
    }

    // evidence
    let samples: Vec<serde_json::Value> = results
        .iter()
        .filter(|r| r.sample.is_some())
        .take(5)
        .map(|r| json!({"scenario": r.name, "case": r.descr, "an_explored_execution": r.sample}))
        .collect();
    let per_scenario: Vec<serde_json::Value> = per
        .iter()
        .take(400)
        .map(|(n, e)| {
            json!({"id": n, "executions": e.0, "steps": e.1, "max_choice_points": e.2,
                   "capped": e.3, "bound": e.4, "cpu_s": (e.5 * 100.0).round() / 100.0, "case": e.6})
        })
        .collect();
    let exhaustive = spec.exhaustive_when_uncapped && !capped && machinery.is_empty();
    let mut assumptions: Vec<String> = spec.assumptions.iter().map(|s| s.to_string()).collect();
    assumptions.push("channels, locks, sockets and clocks behave as the environment model of src/verif (FIFO, capacity blocking, disconnect after drain, reliable byte streams, sequentially consistent)".into());
    let ev = json!({
        "property_id": spec.id,
        "tier": tier.name(),
        "seed": seed,
        "level": "model_checking",
        "coverage": {
            "states": points.max(1),
            "transitions": steps.max(1),
            "traces_validated_against_impl": execs,
            "evaluations": per.len() + cases,
            "distinct_nontrivial": if cases > 0 { nontrivial_cases } else { nontrivial.len() },
            "cases_enumerated_inside_executions": cases,
            "distinct_terminal_observations": obs.len(),
            "rule": spec.rule,
            "samples": samples,
            "exhaustive": exhaustive,
            "explanation": "states = choice points visited in the explored choice trees; transitions = scheduling steps executed; traces = complete executions of the real code under the controlled runtime (every one is an execution of the implementation); evaluations = scenarios (program x input x configuration) explored",
            "caps_hit": capped,
            "items_not_started": caps_not_started,
            "scenarios": per.len(),
            "per_scenario": per_scenario,
        },
        "assumptions": assumptions,
        "wall_s": t0.elapsed().as_secs_f64(),
        "violations": new_violations.len(),
        "known_findings_seen": known_seen.iter().map(|f| f.sig.clone()).collect::<Vec<_>>(),
        "machinery_errors": machinery,
    });
    let edir = verif_dir().join("evidence");
    let _ = std::fs::create_dir_all(&edir);
    let _ = std::fs::write(
        edir.join(format!("{}.json", spec.id)),
        serde_json::to_string_pretty(&ev).unwrap(),
    );
    println!(
        "{} {}: scenarios={} cases={} executions={} steps={} choice_points={} distinct_observations={} capped={} wall={:.1}s",
        spec.id,
        tier.name(),
        per.len(),
        cases,
        execs,
        steps,
        points,
        obs.len(),
        capped,
        t0.elapsed().as_secs_f64()
    );
    if !machinery.is_empty() {
        for m in machinery.iter().take(10) {
            eprintln!("MACHINERY: {m}");
        }
        return 2;
    }
    if !lines.is_empty() {
        for l in lines {
            println!("{l}");
        }
        return 1;
    }
    0
}

pub fn fmt_ev(e: &Ev) -> String {
    format!("{:?}", e)
}

static REPLAYING: Mutex<Option<(String, String)>> = Mutex::new(None);

fn replay_hang(name: String, _descr: String, _prefix: Vec<crate::rt::Point>, _order: crate::rt::Order, silent: u64) -> ! {
    let (prop, path) = REPLAYING.lock().unwrap().clone().unwrap_or_default();
    println!("scenario: {name}");
    println!("replay: hang :: the job never terminates - {silent} s of wall time without reaching a scheduling point");
    println!("VIOLATION property={} replay={}", prop, path);
    std::process::exit(1);
}

pub fn replay(specs: &[PropSpec], path: &str) -> i32 {
    let doc: serde_json::Value = match std::fs::read_to_string(path)
        .ok()
        .and_then(|s| serde_json::from_str(&s).ok())
    {
        Some(d) => d,
        None => {
            eprintln!("cannot read replay file {path}");
            return 2;
        }
    };
    let prop = doc["property"].as_str().unwrap_or("");
    let tier = Tier::parse(doc["tier"].as_str().unwrap_or("quick"));
    let Some(spec) = specs.iter().find(|s| s.id == prop) else {
        eprintln!("unknown property {prop}");
        return 2;
    };
    let scenarios = scenario_list(spec, tier);
    let name = doc["scenario"].as_str().unwrap_or("");
    let Some(s) = scenarios.iter().find(|s| s.name == name) else {
        eprintln!("scenario {name} not found in {prop}/{}", tier.name());
        return 2;
    };
    let choices: Vec<crate::rt::Point> =
        serde_json::from_value(doc["choices"].clone()).unwrap_or_default();
    let order = parse_order(doc["order"].as_str().unwrap_or("run-asc"));
    let mut params = s.params.clone();
    if std::env::var("NV_OBSERVE").is_ok() {
        // (debugging aid: show link traffic; the choice structure does not depend on it)
        params.observe_links = true;
    }
    *REPLAYING.lock().unwrap() = Some((prop.to_string(), path.to_string()));
    crate::rt::watchdog::scenario(&s.name, &s.descr, !s.loop_body);
    crate::rt::watchdog::start(replay_hang);
    let r1 = run_once(choices.clone(), order, params.clone(), s.body.clone());
    let r2 = run_once(choices, order, params, s.body.clone());
    println!("scenario: {} :: {}", s.name, s.descr);
    println!("status: {:?}   virtual time: {:?}", r1.status, r1.virtual_time);
    for e in r1.log.iter().take(400) {
        println!("  {}", fmt_ev(e));
    }
    if r1.log != r2.log || r1.trace != r2.trace {
        eprintln!("replay is not deterministic");
        return 2;
    }
    let sig = doc["sig"].as_str().unwrap_or("");
    if let Status::Livelock(t) = &r1.status {
        println!("replay: livelock :: the job never terminates - {t}");
        println!("VIOLATION property={} replay={}", prop, path);
        return 1;
    }
    if r1.status == Status::StepCap {
        println!("replay: nontermination :: the job is still running after {} scheduling steps", r1.steps);
        println!("VIOLATION property={} replay={}", prop, path);
        return 1;
    }
    if s.sometimes.iter().any(|(x, _, _)| x == sig) {
        // a reachability obligation is a statement about the whole scenario: explore it again
        let rep = explore(s, 0, 1, None);
        let mut bad = false;
        for v in rep.violations.iter().filter(|v| v.sig == sig) {
            println!("replay: {} :: {}", v.sig, v.message);
            bad = true;
        }
        if bad {
            println!("VIOLATION property={} replay={}", prop, path);
            return 1;
        }
        println!("replay: the obligation is met ({} executions explored)", rep.executions);
        return 0;
    }
    match (s.check)(&r1) {
        Ok(_) => {
            println!("replay: property holds on this execution");
            0
        }
        Err(f) => {
            println!("replay: {} :: {}", f.sig, f.msg);
            println!("VIOLATION property={} replay={}", prop, path);
            1
        }
    }
}
