//! The verification runtime: `renoir::verif::Rt` implemented over shuttle-engine coroutines, with
//! our own scheduler, virtual clock, event log and happens-before tracking.
//!
//! One execution runs on one OS thread; all per-execution state lives in the thread-local `CORE`.
use std::cell::RefCell;
use std::collections::HashMap;
use std::time::Duration;

use renoir::verif::observe::Event;
use renoir::verif::{self, ChoiceKind, Op, Param, Rt, TaskId};
use shuttle::scheduler::{Schedule, Scheduler, Task, TaskId as STaskId};
use shuttle_engine::runtime::execution::ExecutionState;
use shuttle_engine::runtime::thread as sthread;

/// Kinds of choice points.
#[derive(Clone, Copy, Debug, PartialEq, Eq, Hash, serde::Serialize, serde::Deserialize)]
pub enum Kind {
    Task,
    Select,
    Random,
    ShortRead,
    ShortWrite,
    Perm,
    Driver,
    TimerTie,
}

impl Kind {
    pub fn code(self) -> u8 {
        self as u8
    }
}

#[derive(Clone, Copy, Debug, PartialEq, Eq, Hash, serde::Serialize, serde::Deserialize)]
pub struct Point {
    pub k: Kind,
    pub n: u16,
    pub c: u16,
}

#[derive(Clone, Copy, Debug, PartialEq, Eq)]
pub enum Order {
    /// running task first if still enabled, then ascending task id
    RunAsc,
    /// running task first if still enabled, then descending task id
    RunDesc,
    /// round robin: first enabled task after the running one
    RoundRobin,
}

/// Environment-model parameters of one scenario.
#[derive(Clone, Debug)]
pub struct EnvParams {
    /// capacity used for every bounded channel (0 = keep the engine's own constants)
    pub channel_capacity: usize,
    pub random_arity: usize,
    pub pipe_capacity: usize,
    pub short_io: bool,
    pub observe_links: bool,
    /// kinds of data choice that cost nothing (always enumerated completely)
    pub free_kinds: Vec<Kind>,
    pub max_steps: usize,
    /// record StateAccess events and run the race detector
    pub race_detector: bool,
}

impl Default for EnvParams {
    fn default() -> Self {
        EnvParams {
            channel_capacity: 0,
            random_arity: 2,
            pipe_capacity: 0,
            short_io: false,
            observe_links: false,
            free_kinds: vec![Kind::Driver],
            max_steps: 200_000,
            race_detector: true,
        }
    }
}

/// Events of the per-execution log.
#[derive(Clone, Debug, PartialEq, Eq, Hash)]
pub enum Ev {
    Repo(Event),
    /// (probe id, coord, element kind, timestamp, payload)
    Probe(u32, (u64, u64, u64), u8, Option<i64>, Vec<i64>),
    /// free-form observation: tag + numbers
    Note(&'static str, Vec<i64>),
    Text(&'static str, String),
    Race(String),
    TimerFired(usize),
}

#[derive(Default)]
struct Hb {
    clocks: Vec<Vec<u32>>,
    tokens: Vec<Vec<u32>>,
    /// per object: last write (task, epoch), reads since (task, epoch)
    cells: HashMap<usize, (Option<(usize, u32)>, Vec<(usize, u32)>)>,
}

fn vc_join(a: &mut Vec<u32>, b: &[u32]) {
    if a.len() < b.len() {
        a.resize(b.len(), 0);
    }
    for (x, y) in a.iter_mut().zip(b.iter()) {
        if *y > *x {
            *x = *y;
        }
    }
}

impl Hb {
    fn clock(&mut self, t: usize) -> &mut Vec<u32> {
        if self.clocks.len() <= t {
            self.clocks.resize(t + 1, vec![]);
        }
        let c = &mut self.clocks[t];
        if c.len() <= t {
            c.resize(t + 1, 0);
        }
        if c[t] == 0 {
            c[t] = 1;
        }
        c
    }
    fn hb(&mut self, (t, e): (usize, u32), me: usize) -> bool {
        let c = self.clock(me);
        c.get(t).copied().unwrap_or(0) >= e
    }
}

pub struct Core {
    /// step index of the last event that changed the global state (a task blocked, was woken,
    /// was spawned or ended, a message or lock was handed over)
    pub last_progress: usize,
    pub prefix: Vec<Point>,
    pub trace: Vec<Point>,
    pub steps: usize,
    pub order: Order,
    pub params: EnvParams,
    pub log: Vec<Ev>,
    pub divergence: Option<String>,
    // clock
    pub now: Duration,
    timers: Vec<(Duration, u64, TaskId)>,
    timer_seq: u64,
    timed_out: Vec<TaskId>,
    clock_task: Option<TaskId>,
    clock_spawning: bool,
    shutdown: bool,
    // tasks
    pub names: Vec<String>,
    pub pending: Vec<Op>,
    finished: Vec<bool>,
    random_counter: Vec<usize>,
    main_task: Option<TaskId>,
    handles: HashMap<TaskId, shuttle::thread::JoinHandle<()>>,
    join_waiters: Vec<(TaskId, TaskId)>,
    next_obj: usize,
    last_running: Option<usize>,
    hb: Hb,
    body: Option<Body>,
    body_panic: Option<String>,
    abort: Option<Status>,
    // sleep sets (unbounded mode)
    pub sleep_mode: bool,
    sleep: Vec<(usize, Op)>,
    inject_sleep: Option<Vec<(usize, Op)>>,
    /// task and operation of the step in progress, what else it touched, whom it woke
    step: Option<(usize, Op)>,
    step_touched: Vec<usize>,
    step_woken: Vec<usize>,
    step_global: bool,
    /// per choice point: enabled tasks (canonical order, with their pending operations) and the
    /// sleep set in force at that node
    pub nodes: Vec<Node>,
    /// index of the first choice point at or after which every enabled task was asleep
    pub sleep_blocked_at: Option<usize>,
}

#[derive(Clone, Debug, Default)]
pub struct Node {
    pub enabled: Vec<(usize, Op)>,
    pub sleep: Vec<(usize, Op)>,
}

fn op_objects(op: Op) -> Option<Vec<usize>> {
    // None = global (dependent with everything)
    match op {
        Op::Send(a) | Op::Recv(a) | Op::NetRead(a) | Op::NetWrite(a) => Some(vec![a]),
        Op::Select(a, b) => Some(vec![a, b]),
        Op::Join(_) => Some(vec![]),
        Op::Lock(_) | Op::Wait(_) | Op::Barrier(_) | Op::Net(_) | Op::Sleep | Op::Global => None,
    }
}

impl Core {
    fn new(prefix: Vec<Point>, order: Order, params: EnvParams) -> Self {
        Core {
            last_progress: 0,
            prefix,
            trace: vec![],
            steps: 0,
            order,
            params,
            log: vec![],
            divergence: None,
            now: Duration::ZERO,
            timers: vec![],
            timer_seq: 0,
            timed_out: vec![],
            clock_task: None,
            clock_spawning: false,
            shutdown: false,
            names: vec![],
            pending: vec![],
            finished: vec![],
            random_counter: vec![],
            main_task: None,
            handles: HashMap::new(),
            join_waiters: vec![],
            next_obj: 0,
            last_running: None,
            hb: Hb::default(),
            body: None,
            body_panic: None,
            abort: None,
            sleep_mode: false,
            sleep: vec![],
            inject_sleep: None,
            step: None,
            step_touched: vec![],
            step_woken: vec![],
            step_global: false,
            nodes: vec![],
            sleep_blocked_at: None,
        }
    }

    fn decide(&mut self, k: Kind, n: usize) -> usize {
        debug_assert!(n >= 2);
        let pos = self.trace.len();
        let c = if pos < self.prefix.len() {
            let p = self.prefix[pos];
            if p.k != k || p.n as usize != n {
                if self.divergence.is_none() {
                    self.divergence = Some(format!(
                        "replay divergence at choice point {pos}: recorded {:?}/{} but execution asks {:?}/{}",
                        p.k, p.n, k, n
                    ));
                }
                0
            } else {
                p.c as usize
            }
        } else {
            0
        };
        self.trace.push(Point {
            k,
            n: n as u16,
            c: c as u16,
        });
        if self.sleep_mode {
            while self.nodes.len() < self.trace.len() {
                self.nodes.push(Node {
                    enabled: vec![],
                    sleep: self.sleep.clone(),
                });
            }
        }
        c
    }

    /// Close the step in progress: a sleeping task stays asleep only if its pending operation is
    /// independent of everything the step did.
    fn end_step(&mut self) {
        if let Some((t, op)) = self.step.take() {
            let global = self.step_global || op_objects(op).is_none();
            let mut objs = op_objects(op).unwrap_or_default();
            objs.extend(self.step_touched.drain(..));
            let woken = std::mem::take(&mut self.step_woken);
            self.step_global = false;
            self.sleep.retain(|(s, os)| {
                if *s == t || global || woken.contains(s) {
                    return false;
                }
                if let Op::Join(j) = os {
                    if *j == t {
                        return false;
                    }
                }
                if let Op::Join(j) = op {
                    if j == *s {
                        return false;
                    }
                }
                match op_objects(*os) {
                    None => false,
                    Some(o2) => !o2.iter().any(|x| objs.contains(x)),
                }
            });
        }
    }

    fn ensure_task(&mut self, t: usize) {
        if self.names.len() <= t {
            self.names.resize(t + 1, String::new());
            self.pending.resize(t + 1, Op::Global);
            self.finished.resize(t + 1, false);
            self.random_counter.resize(t + 1, 0);
        }
    }
}

thread_local! {
    pub static CORE: RefCell<Option<Core>> = const { RefCell::new(None) };
}

pub fn with_core<R>(f: impl FnOnce(&mut Core) -> R) -> R {
    CORE.with(|c| f(c.borrow_mut().as_mut().expect("no execution in progress")))
}

fn try_with_core<R>(f: impl FnOnce(&mut Core) -> R) -> Option<R> {
    CORE.try_with(|c| match c.try_borrow_mut() {
        Ok(mut g) => g.as_mut().map(f),
        Err(_) => None,
    })
    .ok()
    .flatten()
}

/// Append to the event log of the running execution.
pub fn log(ev: Ev) {
    with_core(|c| c.log.push(ev));
}

pub struct Sched;

impl Scheduler for Sched {
    fn new_execution(&mut self) -> Option<Schedule> {
        Some(Schedule::new(0))
    }

    fn next_task(
        &mut self,
        runnable: &[&Task],
        current: Option<STaskId>,
        _is_yielding: bool,
    ) -> Option<STaskId> {
        with_core(|c| {
            c.steps += 1;
            let clock = c.clock_task;
            let mut ids: Vec<usize> = runnable.iter().map(|t| usize::from(t.id())).collect();
            ids.sort_unstable();
            let cur = current.map(usize::from);
            // the clock task goes last: firing a timer while somebody could still run is a
            // deviation
            let has_clock = clock.map(|k| ids.contains(&k)).unwrap_or(false);
            if let Some(k) = clock {
                ids.retain(|t| *t != k);
            }
            match c.order {
                Order::RunAsc => {}
                Order::RunDesc => ids.reverse(),
                Order::RoundRobin => {
                    if let Some(cur) = cur.or(c.last_running) {
                        let p = ids.iter().position(|t| *t > cur).unwrap_or(0);
                        ids.rotate_left(p);
                    }
                }
            }
            if !matches!(c.order, Order::RoundRobin) {
                if let Some(cur) = cur {
                    if let Some(p) = ids.iter().position(|t| *t == cur) {
                        let x = ids.remove(p);
                        ids.insert(0, x);
                    }
                }
            }
            if has_clock {
                ids.push(clock.unwrap());
            }
            if !c.sleep_mode {
                let k = if ids.len() == 1 {
                    0
                } else {
                    c.decide(Kind::Task, ids.len())
                };
                c.last_running = Some(ids[k]);
                return Some(STaskId::from(ids[k]));
            }
            // ---- sleep-set mode ----
            c.end_step();
            for t in &ids {
                c.ensure_task(*t);
            }
            let replaying = c.trace.len() < c.prefix.len();
            let k = if ids.len() == 1 {
                if !replaying && c.sleep_blocked_at.is_none() && c.sleep.iter().any(|(s, _)| *s == ids[0]) {
                    c.sleep_blocked_at = Some(c.trace.len());
                }
                0
            } else if replaying {
                // the branching node itself is the last point of the prefix: its sleep set comes
                // with the work item
                if c.trace.len() + 1 == c.prefix.len() {
                    if let Some(sl) = c.inject_sleep.take() {
                        c.sleep = sl;
                    }
                }
                let k = c.decide(Kind::Task, ids.len());
                let node = Node {
                    enabled: ids.iter().map(|t| (*t, c.pending[*t])).collect(),
                    sleep: c.sleep.clone(),
                };
                let i = c.trace.len() - 1;
                c.nodes[i] = node;
                k.min(ids.len() - 1)
            } else {
                // default: the first enabled task that is not asleep
                let awake = ids.iter().position(|t| !c.sleep.iter().any(|(s, _)| s == t));
                let pos = c.trace.len();
                let k = match awake {
                    Some(k) => k,
                    None => {
                        if c.sleep_blocked_at.is_none() {
                            c.sleep_blocked_at = Some(pos);
                        }
                        0
                    }
                };
                c.trace.push(Point { k: Kind::Task, n: ids.len() as u16, c: k as u16 });
                while c.nodes.len() < c.trace.len() - 1 {
                    c.nodes.push(Node::default());
                }
                c.nodes.push(Node {
                    enabled: ids.iter().map(|t| (*t, c.pending[*t])).collect(),
                    sleep: c.sleep.clone(),
                });
                k
            };
            let t = ids[k];
            c.step = Some((t, c.pending[t]));
            c.last_running = Some(t);
            Some(STaskId::from(t))
        })
    }

    fn next_u64(&mut self) -> u64 {
        0
    }
}

pub struct ShuttleRt;
pub static RT: ShuttleRt = ShuttleRt;

fn me() -> usize {
    ExecutionState::me().into()
}

/// The running task, or None while the engine tears an execution down (stacks of unfinished
/// tasks are unwound then, and destructors of channel handles, guards, ... still call in here).
fn try_me() -> Option<usize> {
    ExecutionState::try_with(|s| s.try_current().map(|t| t.id().into())).ok().flatten()
}

impl Rt for ShuttleRt {
    fn op(&self, op: Op) {
        let Some(me) = try_me() else { return };
        if trace_on() {
            eprintln!("[t{}] op {:?}", me, op);
        }
        with_core(|c| {
            c.ensure_task(me);
            c.pending[me] = op;
        });
        sthread::switch();
    }

    fn me(&self) -> TaskId {
        me()
    }

    fn block(&self, timeout: Option<Duration>) -> bool {
        let me = me();
        if trace_on() {
            eprintln!("[t{}] block {:?} at {:?}", me, timeout, with_core(|c| c.now));
        }
        if let Some(d) = timeout {
            // the clock task is created when the first timer is
            let spawn_clock = with_core(|c| {
                if c.clock_task.is_none() && !c.clock_spawning {
                    c.clock_spawning = true;
                    true
                } else {
                    false
                }
            });
            if spawn_clock {
                let h = shuttle::thread::Builder::new()
                    .name("clock".into())
                    .stack_size(STACK)
                    .spawn(|| {
                        clock_task();
                        task_exit();
                    })
                    .unwrap();
                let clock_id: usize = h.thread().id().into();
                with_core(|c| {
                    c.ensure_task(clock_id);
                    c.names[clock_id] = "clock".into();
                    c.clock_task = Some(clock_id);
                    c.handles.insert(clock_id, h);
                });
                // spawning is a scheduling point: the caller registered on its wait list before
                // calling us and may have been "woken" meanwhile. Report a spurious wake-up so
                // that it re-checks its condition and registers again (every waiter loops).
                return false;
            }
            let clock = with_core(|c| {
                c.timer_seq += 1;
                let seq = c.timer_seq;
                c.timers.push((c.now + d, seq, me));
                c.clock_task
            });
            if let Some(k) = clock {
                self.unblock(k);
            }
        }
        with_core(|c| c.last_progress = c.steps);
        ExecutionState::with(|s| s.current_mut().block(false));
        sthread::switch();
        with_core(|c| {
            // cancel a pending timer; report whether the clock woke us
            c.timers.retain(|t| t.2 != me);
            if let Some(p) = c.timed_out.iter().position(|t| *t == me) {
                c.timed_out.remove(p);
                true
            } else {
                false
            }
        })
    }

    fn unblock(&self, t: TaskId) {
        if trace_on() {
            eprintln!("[t?] unblock t{}", t);
        }
        let woke = ExecutionState::try_with(|s| {
            let t = STaskId::from(t);
            if let Some(task) = s.try_get(t) {
                if !task.finished() && task.blocked() {
                    s.get_mut(t).unblock();
                    return true;
                }
            }
            false
        })
        .unwrap_or(false);
        if woke {
            let _ = try_with_core(|c| {
                c.last_progress = c.steps;
                if c.sleep_mode {
                    c.step_woken.push(t);
                }
            });
            // a waiter woken by a peer can no longer be timed out: its timer is cancelled now,
            // not when it gets to run (it re-arms a timer if it has to wait again)
            let _ = try_with_core(|c| c.timers.retain(|x| x.2 != t));
        }
    }

    fn spawn(&self, name: String, f: Box<dyn FnOnce() + Send>) -> TaskId {
        let parent = me();
        with_core(|c| {
            c.step_global = true;
            c.ensure_task(parent);
            c.pending[parent] = Op::Global;
        });
        let h = shuttle::thread::Builder::new()
            .name(name.clone())
            .stack_size(STACK)
            .spawn(move || {
                f();
                task_exit();
            })
            .unwrap();
        let id: usize = h.thread().id().into();
        with_core(|c| {
            c.last_progress = c.steps;
            c.ensure_task(id);
            c.names[id] = name;
            c.handles.insert(id, h);
            // child inherits the parent's clock
            let pc = c.hb.clock(parent).clone();
            let cc = c.hb.clock(id);
            vc_join(cc, &pc);
            c.hb.clock(parent)[parent] += 1;
        });
        id
    }

    fn join(&self, t: TaskId) {
        // (shuttle's own join cannot be used: it assumes the joiner is only ever woken by the
        // target, while our wait lists wake generously)
        let me = me();
        loop {
            let done = with_core(|c| {
                c.ensure_task(t);
                if c.finished[t] {
                    true
                } else {
                    if !c.join_waiters.contains(&(t, me)) {
                        c.join_waiters.push((t, me));
                    }
                    false
                }
            });
            if done {
                break;
            }
            ExecutionState::with(|s| s.current_mut().block(false));
            sthread::switch();
        }
        with_core(|c| {
            let tc = c.hb.clock(t).clone();
            vc_join(c.hb.clock(me), &tc);
        });
    }

    fn choose(&self, kind: ChoiceKind, arity: usize) -> usize {
        if arity <= 1 {
            return 0;
        }
        let k = match kind {
            ChoiceKind::Select => Kind::Select,
            ChoiceKind::Random => Kind::Random,
            ChoiceKind::ShortRead => Kind::ShortRead,
            ChoiceKind::ShortWrite => Kind::ShortWrite,
            ChoiceKind::Perm => Kind::Perm,
            ChoiceKind::Driver => Kind::Driver,
        };
        let me = me();
        with_core(|c| {
            if c.sleep_mode && c.trace.len() + 1 == c.prefix.len() {
                if let Some(sl) = c.inject_sleep.take() {
                    c.sleep = sl;
                }
            }
            let d = c.decide(k, arity);
            if k == Kind::Random {
                // default answers rotate so that the default execution already spreads elements
                // over the replicas; a deviation perturbs one destination
                c.ensure_task(me);
                let n = c.random_counter[me];
                c.random_counter[me] += 1;
                (d + n) % arity
            } else {
                d
            }
        })
    }

    fn new_object(&self) -> usize {
        with_core(|c| {
            c.next_obj += 1;
            c.next_obj
        })
    }

    fn now(&self) -> Duration {
        with_core(|c| c.now)
    }

    fn observe(&self, ev: Event) {
        let Some(me) = try_me() else { return };
        let _ = try_with_core(|c| {
            if let Event::StateAccess(obj, write) = ev {
                if !c.params.race_detector {
                    return;
                }
                let epoch = c.hb.clock(me)[me];
                let (lw, reads) = c.hb.cells.entry(obj).or_default().clone();
                let mut race = None;
                if let Some(w) = lw {
                    if w.0 != me && !c.hb.hb(w, me) {
                        race = Some(format!(
                            "{} of loop state by task {} ({}) not ordered after write by task {} ({})",
                            if write { "write" } else { "read" },
                            me,
                            c.names.get(me).cloned().unwrap_or_default(),
                            w.0,
                            c.names.get(w.0).cloned().unwrap_or_default()
                        ));
                    }
                }
                if write {
                    for r in reads.iter() {
                        if r.0 != me && !c.hb.hb(*r, me) {
                            race = Some(format!(
                                "write of loop state by task {} ({}) not ordered after read by task {} ({})",
                                me,
                                c.names.get(me).cloned().unwrap_or_default(),
                                r.0,
                                c.names.get(r.0).cloned().unwrap_or_default()
                            ));
                        }
                    }
                    let cell = c.hb.cells.get_mut(&obj).unwrap();
                    cell.0 = Some((me, epoch));
                    cell.1.clear();
                } else {
                    let cell = c.hb.cells.get_mut(&obj).unwrap();
                    cell.1.retain(|r| r.0 != me);
                    cell.1.push((me, epoch));
                }
                if let Some(r) = race {
                    c.log.push(Ev::Race(r));
                }
                return;
            }
            c.log.push(Ev::Repo(ev));
        });
    }

    fn param(&self, p: Param) -> usize {
        try_with_core(|c| match p {
            Param::ChannelCapacity(_) => c.params.channel_capacity,
            Param::RandomArity => c.params.random_arity,
            Param::PipeCapacity => c.params.pipe_capacity,
            Param::ShortIo => c.params.short_io as usize,
            Param::ObserveLinks => c.params.observe_links as usize,
        })
        .unwrap_or(0)
    }

    fn touch(&self, obj: usize) {
        let _ = try_with_core(|c| {
            if c.sleep_mode {
                c.step_touched.push(obj);
            }
        });
    }

    fn hb_release(&self) -> u64 {
        let Some(me) = try_me() else { return 0 };
        try_with_core(|c| {
            c.last_progress = c.steps;
            let clk = c.hb.clock(me).clone();
            c.hb.tokens.push(clk);
            c.hb.clock(me)[me] += 1;
            c.hb.tokens.len() as u64
        })
        .unwrap_or(0)
    }

    fn hb_acquire(&self, token: u64) {
        let Some(me) = try_me() else { return };
        if token == 0 {
            return;
        }
        let _ = try_with_core(|c| {
            // (not a progress mark: the token of a dropped handle is acquired again by every
            // receive that reports the disconnection)
            if let Some(t) = c.hb.tokens.get(token as usize - 1).cloned() {
                vc_join(c.hb.clock(me), &t);
            }
        });
    }
}

fn task_exit() {
    let me = me();
    let (main, waiters) = with_core(|c| {
        c.last_progress = c.steps;
        c.ensure_task(me);
        c.finished[me] = true;
        let w: Vec<TaskId> = c
            .join_waiters
            .iter()
            .filter(|(t, _)| *t == me)
            .map(|(_, w)| *w)
            .collect();
        c.join_waiters.retain(|(t, _)| *t != me);
        (c.main_task, w)
    });
    for w in waiters {
        RT.unblock(w);
    }
    if let Some(m) = main {
        RT.unblock(m);
    }
}

fn clock_task() {
    let me = me();
    loop {
        // the clock has just been scheduled: with a timer pending, that is the decision to let
        // time pass up to the earliest deadline (free when nobody else can run, a deviation
        // otherwise - the clock is last in every canonical order)
        let fire = with_core(|c| {
            if c.shutdown || c.timers.is_empty() {
                return None;
            }
            let min = c.timers.iter().map(|t| (t.0, t.1)).min().unwrap();
            let i = c.timers.iter().position(|t| (t.0, t.1) == min).unwrap();
            let (dl, _, task) = c.timers.remove(i);
            if dl > c.now {
                c.now = dl;
            }
            c.timed_out.push(task);
            c.log.push(Ev::TimerFired(task));
            Some(task)
        });
        if let Some(t) = fire {
            RT.unblock(t);
        }
        // wait to be scheduled again: runnable while a timer is pending, blocked otherwise
        let (shutdown, has_timer) = with_core(|c| (c.shutdown, !c.timers.is_empty()));
        if shutdown {
            return;
        }
        if has_timer {
            with_core(|c| {
                c.ensure_task(me);
                c.pending[me] = Op::Global;
            });
            sthread::switch();
        } else {
            ExecutionState::with(|s| s.current_mut().block(false));
            sthread::switch();
        }
    }
}

/// Advance the virtual clock from a driver (E2 scenarios). Fires nothing.
pub fn advance(d: Duration) {
    with_core(|c| c.now += d);
}

/// A free (cost 0) driver choice.
pub fn driver_choose(n: usize) -> usize {
    RT.choose(ChoiceKind::Driver, n)
}

#[derive(Clone, Debug, PartialEq, Eq)]
pub enum Status {
    Done,
    /// the scenario body panicked (payload text); tasks still finished
    BodyPanic(String),
    Deadlock(String),
    StepCap,
    /// the step cap was hit and nothing changed the global state during the second half of the
    /// execution: some task spins (names of the tasks not finished, with their last operation)
    Livelock(String),
    Divergence(String),
    /// an engine-level failure that is not a verdict
    Engine(String),
}

pub struct ExecResult {
    pub trace: Vec<Point>,
    pub steps: usize,
    pub status: Status,
    /// panic message of the scenario body, if it panicked (also when the status is Deadlock)
    pub body_panic: Option<String>,
    pub log: Vec<Ev>,
    pub virtual_time: Duration,
    pub nodes: Vec<Node>,
    pub sleep_blocked_at: Option<usize>,
}

fn panic_text(p: &Box<dyn std::any::Any + Send>) -> String {
    if let Some(s) = p.downcast_ref::<&str>() {
        s.to_string()
    } else if let Some(s) = p.downcast_ref::<String>() {
        s.clone()
    } else {
        "<non-string panic payload>".to_string()
    }
}

pub type Body = std::sync::Arc<dyn Fn() + Send + Sync>;

pub struct Request {
    pub prefix: Vec<Point>,
    pub order: Order,
    pub params: EnvParams,
    pub body: Body,
    /// `Some(sleep set at the branching node)` = unbounded exploration with sleep sets
    pub sleep: Option<Vec<(usize, Op)>>,
}

/// Called with the result of the previous execution (if any); returns the next one to run.
pub type Driver = Box<dyn FnMut(Option<ExecResult>) -> Option<Request>>;

const STACK: usize = 1 << 20;

/// The step cap was hit: a livelock if no event changed the global state (no task blocked, was
/// woken, spawned or ended, no message or lock changed hands) for more than half of the cap.
fn step_cap_status(core: &Core) -> Status {
    if core.steps.saturating_sub(core.last_progress) > core.params.max_steps / 2 {
        let mut live = vec![];
        for (i, n) in core.names.iter().enumerate() {
            if !core.finished[i] && Some(i) != core.clock_task && Some(i) != core.main_task {
                live.push(format!("{}#{}:{:?}", n, i, core.pending[i]));
            }
        }
        Status::Livelock(format!(
            "no task blocked, was woken or ended and no message changed hands during the last {} of {} scheduling steps; unfinished tasks: {}",
            core.steps - core.last_progress,
            core.steps,
            live.join(", ")
        ))
    } else {
        Status::StepCap
    }
}

fn finish_core(core: Core) -> ExecResult {
    let status = if let Some(d) = core.divergence.clone() {
        Status::Divergence(d)
    } else if let Some(a) = core.abort.clone() {
        a
    } else if core.steps > core.params.max_steps {
        step_cap_status(&core)
    } else if let Some(p) = core.body_panic.clone() {
        Status::BodyPanic(p)
    } else {
        Status::Done
    };
    ExecResult {
        trace: core.trace,
        steps: core.steps,
        status,
        body_panic: core.body_panic,
        log: core.log,
        virtual_time: core.now,
        nodes: core.nodes,
        sleep_blocked_at: core.sleep_blocked_at,
    }
}

struct BatchSched {
    driver: std::rc::Rc<RefCell<Driver>>,
    done: std::rc::Rc<std::cell::Cell<bool>>,
    inner: Sched,
}

impl Scheduler for BatchSched {
    fn new_execution(&mut self) -> Option<Schedule> {
        let prev = CORE.with(|c| c.borrow_mut().take()).map(finish_core);
        match (self.driver.borrow_mut())(prev) {
            Some(req) => {
                watchdog::begin(&req.prefix, req.order);
                let mut core = Core::new(req.prefix, req.order, req.params);
                core.body = Some(req.body);
                if let Some(sl) = req.sleep {
                    core.sleep_mode = true;
                    core.inject_sleep = Some(sl);
                }
                CORE.with(|c| *c.borrow_mut() = Some(core));
                self.inner.new_execution()
            }
            None => {
                watchdog::end();
                self.done.set(true);
                None
            }
        }
    }
    fn next_task(&mut self, r: &[&Task], c: Option<STaskId>, y: bool) -> Option<STaskId> {
        watchdog::beat();
        let over = with_core(|c| c.steps > c.params.max_steps || c.divergence.is_some());
        if over {
            // stop this execution: reported as step cap / divergence, never as a verdict
            return None;
        }
        self.inner.next_task(r, c, y)
    }
    fn next_u64(&mut self) -> u64 {
        0
    }
}

fn main_task() {
    verif::install(Some(&RT));
    let main = me();
    let body = with_core(|c| {
        c.ensure_task(main);
        c.names[main] = "main".into();
        c.main_task = Some(main);
        c.body.clone().unwrap()
    });
    let r = std::panic::catch_unwind(std::panic::AssertUnwindSafe(|| body()));
    if let Err(p) = r {
        let t = panic_text(&p);
        with_core(|c| c.body_panic = Some(t));
    }
    // wait for every other task: one left blocked forever is a deadlock the engine reports
    loop {
        let all_done = with_core(|c| {
            (0..c.names.len())
                .all(|t| Some(t) == c.main_task || Some(t) == c.clock_task || c.finished[t])
        });
        if all_done {
            break;
        }
        with_core(|c| c.pending[main] = Op::Global);
        ExecutionState::with(|s| s.current_mut().block(false));
        sthread::switch();
    }
    // stop the clock task, if one was ever needed
    let clock = with_core(|c| {
        c.shutdown = true;
        c.clock_task
    });
    if let Some(clock_id) = clock {
        RT.unblock(clock_id);
        loop {
            let done = with_core(|c| c.finished[clock_id]);
            if done {
                break;
            }
            with_core(|c| c.pending[main] = Op::Global);
            ExecutionState::with(|s| s.current_mut().block(false));
            sthread::switch();
        }
    }
    with_core(|c| c.handles.clear());
    verif::install(None);
}

/// Run executions until the driver has no more requests.
pub fn run_many(driver: Driver) {
    let driver = std::rc::Rc::new(RefCell::new(driver));
    let done = std::rc::Rc::new(std::cell::Cell::new(false));
    CORE.with(|c| *c.borrow_mut() = None);
    loop {
        let mut cfg = shuttle::Config::new();
        cfg.stack_size = STACK;
        cfg.failure_persistence = shuttle::FailurePersistence::None;
        cfg.max_steps = shuttle::MaxSteps::None;
        let runner = shuttle::Runner::new(
            BatchSched {
                driver: driver.clone(),
                done: done.clone(),
                inner: Sched,
            },
            cfg,
        );
        let outcome = std::panic::catch_unwind(std::panic::AssertUnwindSafe(|| {
            runner.run(main_task);
        }));
        verif::install(None);
        match outcome {
            Ok(()) => {
                if done.get() {
                    break;
                }
            }
            Err(p) => {
                // the execution in progress was aborted by the engine: classify and go on with a
                // fresh runner (the aborted execution's result is picked up by `new_execution`)
                let t = panic_text(&p);
                let had_core = CORE.with(|c| {
                    let mut g = c.borrow_mut();
                    match g.as_mut() {
                        Some(core) => {
                            core.abort = Some(if core.steps > core.params.max_steps {
                                step_cap_status(core)
                            } else if t.starts_with("deadlock!") {
                                let mut blocked = vec![];
                                for (i, n) in core.names.iter().enumerate() {
                                    if !core.finished[i] && Some(i) != core.clock_task {
                                        blocked.push(format!("{}#{}:{:?}", n, i, core.pending[i]));
                                    }
                                }
                                Status::Deadlock(blocked.join(", "))
                            } else {
                                Status::Engine(t.clone())
                            });
                            true
                        }
                        None => false,
                    }
                });
                if !had_core {
                    eprintln!("engine failure outside an execution: {t}");
                    std::process::exit(2);
                }
            }
        }
    }
}

/// Run one execution of `body` following `prefix`, default choices afterwards.
pub fn run_once(prefix: Vec<Point>, order: Order, params: EnvParams, body: Body) -> ExecResult {
    let out: std::rc::Rc<RefCell<Option<ExecResult>>> = Default::default();
    let o2 = out.clone();
    let mut req = Some(Request {
        prefix,
        order,
        params,
        body,
        sleep: None,
    });
    run_many(Box::new(move |prev| {
        if let Some(p) = prev {
            *o2.borrow_mut() = Some(p);
        }
        req.take()
    }));
    let r = out.borrow_mut().take();
    r.expect("execution produced no result")
}

thread_local! {
    static DEADLINE: std::cell::Cell<Option<std::time::Instant>> = const { std::cell::Cell::new(None) };
}

/// Wall-clock deadline of the exploration in progress (for enumerations inside one execution).
pub fn set_deadline(d: Option<std::time::Instant>) {
    DEADLINE.with(|c| c.set(d));
}

pub fn deadline_passed() -> bool {
    DEADLINE.with(|c| c.get()).map(|d| std::time::Instant::now() > d).unwrap_or(false)
}

fn trace_on() -> bool {
    thread_local! { static ON: bool = std::env::var("NV_TRACE").is_ok(); }
    ON.with(|o| *o)
}


/// Wall-clock watchdog for code that never comes back to the scheduler: a user-visible loop that
/// spins without touching a channel, lock, timer or thread cannot be cut by the step cap. The
/// scheduler records a heartbeat at every scheduling point; a watchdog thread calls `on_hang` when
/// an execution of a job scenario stays silent for `HANG_S` seconds (a scheduling step of these
/// jobs takes microseconds).
pub mod watchdog {
    use super::{Order, Point};
    use std::sync::atomic::{AtomicBool, AtomicU64, Ordering};
    use std::sync::Mutex;
    use std::time::Instant;

    pub const HANG_S: u64 = 20;
    /// ... during which the process must have burnt at least this much CPU time (a spinning
    /// task does; a process that is merely not scheduled on a loaded machine does not)
    pub const HANG_CPU_S: f64 = 10.0;

    /// user + system CPU time of this process in seconds (from /proc/self/stat, 100 Hz ticks)
    fn cpu_s() -> f64 {
        let s = std::fs::read_to_string("/proc/self/stat").unwrap_or_default();
        // the fields after the command name, which is in parentheses and may contain spaces
        let rest = s.rsplit(')').next().unwrap_or("");
        let f: Vec<&str> = rest.split_whitespace().collect();
        // rest[0] is field 3 (state): utime = field 14, stime = field 15
        let get = |i: usize| f.get(i - 3).and_then(|x| x.parse::<f64>().ok()).unwrap_or(0.0);
        (get(14) + get(15)) / 100.0
    }
    static BEAT_MS: AtomicU64 = AtomicU64::new(0);
    static RUNNING: AtomicBool = AtomicBool::new(false);
    static ENABLED: AtomicBool = AtomicBool::new(false);
    static CURRENT: Mutex<Option<(Vec<Point>, Order)>> = Mutex::new(None);
    static SCENARIO: Mutex<Option<(String, String)>> = Mutex::new(None);
    static START: std::sync::OnceLock<Instant> = std::sync::OnceLock::new();

    fn now_ms() -> u64 {
        START.get_or_init(Instant::now).elapsed().as_millis() as u64
    }
    pub fn beat() {
        BEAT_MS.store(now_ms(), Ordering::Relaxed);
    }
    pub fn begin(prefix: &[Point], order: Order) {
        if ENABLED.load(Ordering::Relaxed) {
            *CURRENT.lock().unwrap() = Some((prefix.to_vec(), order));
        }
        beat();
        RUNNING.store(true, Ordering::SeqCst);
    }
    pub fn end() {
        RUNNING.store(false, Ordering::SeqCst);
    }
    /// Name the scenario being explored; `watch` = false for enumerations inside one execution
    /// (single task, no scheduling points for as long as their budget lasts).
    pub fn scenario(name: &str, descr: &str, watch: bool) {
        *SCENARIO.lock().unwrap() = Some((name.to_string(), descr.to_string()));
        ENABLED.store(watch, Ordering::SeqCst);
        beat();
    }
    /// Start the watchdog thread (once per process). `on_hang(scenario, descr, prefix, order,
    /// silent seconds)` must not return.
    pub fn start(on_hang: fn(String, String, Vec<Point>, Order, u64) -> !) {
        let _ = now_ms();
        std::thread::spawn(move || {
          // CPU time at the last moment the heartbeat was seen to move
          let mut last_beat = 0u64;
          let mut cpu_at_beat = cpu_s();
          loop {
            std::thread::sleep(std::time::Duration::from_millis(500));
            let b = BEAT_MS.load(Ordering::Relaxed);
            if b != last_beat {
                last_beat = b;
                cpu_at_beat = cpu_s();
            }
            if !ENABLED.load(Ordering::SeqCst) || !RUNNING.load(Ordering::SeqCst) {
                continue;
            }
            let silent = now_ms().saturating_sub(b) / 1000;
            if silent >= HANG_S && cpu_s() - cpu_at_beat >= HANG_CPU_S {
                let (name, descr) = SCENARIO.lock().unwrap().clone().unwrap_or_default();
                let (prefix, order) = CURRENT.lock().unwrap().clone().unwrap_or((vec![], Order::RunAsc));
                on_hang(name, descr, prefix, order, silent);
            }
          }
        });
    }
}
