//! Scenario vocabulary shared by the property checks: probes, scripted sources, type erasure,
//! environments, result logging.
use std::fmt::Display;
use std::sync::Arc;

use renoir::structure::{BlockStructure, OperatorKind, OperatorStructure};
use renoir::config::{ConfigBuilder, HostConfig};
use renoir::operator::source::Source;
use renoir::operator::{Operator, StreamElement};
use renoir::{ExecutionMetadata, Replication, RuntimeConfig, Stream, StreamContext};

use crate::rt::{log, Ev};

pub type C3 = (u64, u64, u64);

/// Anything we can put into the numeric payload of a log event.
pub trait Payload {
    fn enc(&self, out: &mut Vec<i64>);
    fn encoded(&self) -> Vec<i64> {
        let mut v = vec![];
        self.enc(&mut v);
        v
    }
}
impl Payload for i64 {
    fn enc(&self, out: &mut Vec<i64>) {
        out.push(*self)
    }
}
impl Payload for u64 {
    fn enc(&self, out: &mut Vec<i64>) {
        out.push(*self as i64)
    }
}
impl Payload for usize {
    fn enc(&self, out: &mut Vec<i64>) {
        out.push(*self as i64)
    }
}
impl Payload for () {
    fn enc(&self, _out: &mut Vec<i64>) {}
}
impl Payload for String {
    fn enc(&self, out: &mut Vec<i64>) {
        out.push(self.len() as i64);
        out.extend(self.bytes().map(|b| b as i64));
    }
}
impl<A: Payload, B: Payload> Payload for (A, B) {
    fn enc(&self, out: &mut Vec<i64>) {
        self.0.enc(out);
        self.1.enc(out);
    }
}
impl<A: Payload, B: Payload, C: Payload> Payload for (A, B, C) {
    fn enc(&self, out: &mut Vec<i64>) {
        self.0.enc(out);
        self.1.enc(out);
        self.2.enc(out);
    }
}
impl<A: Payload> Payload for Option<A> {
    fn enc(&self, out: &mut Vec<i64>) {
        match self {
            None => out.push(i64::MIN),
            Some(a) => {
                out.push(i64::MIN + 1);
                a.enc(out)
            }
        }
    }
}
impl<A: Payload> Payload for Vec<A> {
    fn enc(&self, out: &mut Vec<i64>) {
        out.push(self.len() as i64);
        for a in self {
            a.enc(out)
        }
    }
}

pub const K_ITEM: u8 = 0;
pub const K_TS: u8 = 1;
pub const K_WM: u8 = 2;
pub const K_FB: u8 = 3;
pub const K_TERM: u8 = 4;
pub const K_FAR: u8 = 5;

pub fn kind_of<T>(e: &StreamElement<T>) -> (u8, Option<i64>) {
    match e {
        StreamElement::Item(_) => (K_ITEM, None),
        StreamElement::Timestamped(_, t) => (K_TS, Some(*t)),
        StreamElement::Watermark(t) => (K_WM, Some(*t)),
        StreamElement::FlushBatch => (K_FB, None),
        StreamElement::Terminate => (K_TERM, None),
        StreamElement::FlushAndRestart => (K_FAR, None),
    }
}

/// Forwards everything and logs `(probe id, replica, kind, timestamp, payload)`.
#[derive(Clone)]
pub struct Probe<Op: Operator> {
    prev: Op,
    id: u32,
    coord: C3,
}

impl<Op: Operator> Display for Probe<Op> {
    fn fmt(&self, f: &mut std::fmt::Formatter<'_>) -> std::fmt::Result {
        write!(f, "{} -> Probe{}", self.prev, self.id)
    }
}

impl<Op: Operator> Operator for Probe<Op>
where
    Op::Out: Payload,
{
    type Out = Op::Out;
    fn setup(&mut self, metadata: &mut ExecutionMetadata) {
        self.prev.setup(metadata);
        let c = metadata.coord;
        self.coord = (c.block_id, c.host_id, c.replica_id);
    }
    fn next(&mut self) -> StreamElement<Op::Out> {
        let e = self.prev.next();
        let (k, ts) = kind_of(&e);
        let payload = match &e {
            StreamElement::Item(v) | StreamElement::Timestamped(v, _) => v.encoded(),
            _ => vec![],
        };
        log(Ev::Probe(self.id, self.coord, k, ts, payload));
        e
    }
    fn structure(&self) -> BlockStructure {
        self.prev
            .structure()
            .add_operator(OperatorStructure::new::<Op::Out, _>("Probe"))
    }
}

pub fn probe<Op: Operator + 'static>(s: Stream<Op>, id: u32) -> Stream<Probe<Op>>
where
    Op::Out: Payload,
{
    s.add_operator(|prev| Probe {
        prev,
        id,
        coord: (0, 0, 0),
    })
}

/// A source whose every replica emits its own scripted sequence of stream elements (indexed by
/// global id; replicas beyond the script emit an empty iteration). `Terminate` is appended
/// automatically if missing, after a `FlushAndRestart` if the script does not end with one.
#[derive(Clone)]
pub struct ScriptSource<T: Clone + Send + Sync + 'static> {
    scripts: Arc<Vec<Vec<StreamElement<T>>>>,
    replication: Replication,
    mine: std::collections::VecDeque<StreamElement<T>>,
    /// number of elements handed out so far (shared, for drivers that align output with input)
    consumed: Option<Arc<std::sync::atomic::AtomicUsize>>,
    /// virtual-clock advance (ms) applied before handing out the i-th element
    delays: Option<Arc<Vec<u64>>>,
    /// per replica: the replica sleeps `sleeps[replica][i]` ms (virtual time) before handing out
    /// its i-th element - a slow source inside a running job
    sleeps: Option<Arc<Vec<Vec<u64>>>>,
    my_sleeps: Vec<u64>,
    pos: usize,
}

impl<T: Clone + Send + Sync + 'static> ScriptSource<T> {
    pub fn new(scripts: Vec<Vec<StreamElement<T>>>, replication: Replication) -> Self {
        ScriptSource {
            scripts: Arc::new(scripts),
            replication,
            mine: Default::default(),
            consumed: None,
            delays: None,
            sleeps: None,
            my_sleeps: vec![],
            pos: 0,
        }
    }
    pub fn counted(mut self, c: Arc<std::sync::atomic::AtomicUsize>) -> Self {
        self.consumed = Some(c);
        self
    }
    /// Replica r sleeps `sleeps[r][i]` ms of virtual time before handing out its i-th element.
    pub fn sleeping(mut self, sleeps: Vec<Vec<u64>>) -> Self {
        self.sleeps = Some(Arc::new(sleeps));
        self
    }
    /// Advance the virtual clock by `delays[i]` milliseconds before element `i` is handed out.
    pub fn timed(mut self, delays: Vec<u64>) -> Self {
        self.delays = Some(Arc::new(delays));
        self
    }
    /// One replica, the given items followed by end of stream.
    pub fn items(items: Vec<T>) -> Self {
        Self::new(
            vec![items.into_iter().map(StreamElement::Item).collect()],
            Replication::One,
        )
    }
}

pub fn complete_script<T>(mut s: Vec<StreamElement<T>>) -> Vec<StreamElement<T>> {
    if matches!(s.last(), Some(StreamElement::Terminate)) {
        return s;
    }
    if !matches!(s.last(), Some(StreamElement::FlushAndRestart)) {
        s.push(StreamElement::FlushAndRestart);
    }
    s.push(StreamElement::Terminate);
    s
}

impl<T: Clone + Send + Sync + 'static> Display for ScriptSource<T> {
    fn fmt(&self, f: &mut std::fmt::Formatter<'_>) -> std::fmt::Result {
        write!(f, "ScriptSource")
    }
}

impl<T: Clone + Send + Sync + 'static> Operator for ScriptSource<T> {
    type Out = T;
    fn setup(&mut self, metadata: &mut ExecutionMetadata) {
        let g = metadata.global_id as usize;
        let script = self.scripts.get(g).cloned().unwrap_or_default();
        self.mine = complete_script(script).into();
        if let Some(sl) = &self.sleeps {
            self.my_sleeps = sl.get(g).cloned().unwrap_or_default();
        }
    }
    fn next(&mut self) -> StreamElement<T> {
        if let Some(d) = &self.delays {
            if let Some(ms) = d.get(self.pos) {
                if *ms > 0 {
                    crate::rt::advance(std::time::Duration::from_millis(*ms));
                }
            }
        }
        if let Some(ms) = self.my_sleeps.get(self.pos) {
            if *ms > 0 {
                renoir::verif::thread::sleep(std::time::Duration::from_millis(*ms));
            }
        }
        self.pos += 1;
        if let Some(c) = &self.consumed {
            c.fetch_add(1, std::sync::atomic::Ordering::SeqCst);
        }
        self.mine.pop_front().unwrap_or(StreamElement::Terminate)
    }
    fn structure(&self) -> BlockStructure {
        let mut operator = OperatorStructure::new::<T, _>("ScriptSource");
        operator.kind = OperatorKind::Source;
        BlockStructure::default().add_operator(operator)
    }
}

impl<T: Clone + Send + Sync + 'static> Source for ScriptSource<T> {
    fn replication(&self) -> Replication {
        self.replication
    }
}

// ---------------------------------------------------------------------------------------------
// type erasure

pub trait DynOp<T>: Send {
    fn d_setup(&mut self, metadata: &mut ExecutionMetadata);
    fn d_next(&mut self) -> StreamElement<T>;
    fn d_structure(&self) -> BlockStructure;
    fn d_clone(&self) -> Box<dyn DynOp<T>>;
    fn d_fmt(&self) -> String;
}

impl<T: Send, O: Operator<Out = T> + 'static> DynOp<T> for O {
    fn d_setup(&mut self, metadata: &mut ExecutionMetadata) {
        self.setup(metadata)
    }
    fn d_next(&mut self) -> StreamElement<T> {
        self.next()
    }
    fn d_structure(&self) -> BlockStructure {
        self.structure()
    }
    fn d_clone(&self) -> Box<dyn DynOp<T>> {
        Box::new(self.clone())
    }
    fn d_fmt(&self) -> String {
        self.to_string()
    }
}

/// A boxed operator chain: lets programs be built at run time.
pub struct Dyn<T>(Box<dyn DynOp<T>>);

impl<T> Clone for Dyn<T> {
    fn clone(&self) -> Self {
        Dyn(self.0.d_clone())
    }
}
impl<T> Display for Dyn<T> {
    fn fmt(&self, f: &mut std::fmt::Formatter<'_>) -> std::fmt::Result {
        write!(f, "{}", self.0.d_fmt())
    }
}
impl<T: Send + 'static> Operator for Dyn<T> {
    type Out = T;
    fn setup(&mut self, metadata: &mut ExecutionMetadata) {
        self.0.d_setup(metadata)
    }
    fn next(&mut self) -> StreamElement<T> {
        self.0.d_next()
    }
    fn structure(&self) -> BlockStructure {
        self.0.d_structure()
    }
}

pub type DS<T> = Stream<Dyn<T>>;

pub fn erase<T: Send + 'static, O: Operator<Out = T> + 'static>(s: Stream<O>) -> DS<T> {
    s.add_operator(|prev| Dyn(Box::new(prev)))
}

// ---------------------------------------------------------------------------------------------
// environments

/// Host layout: `Local(p)` or one entry per host with its number of cores.
#[derive(Clone, Debug, PartialEq, Eq, Hash)]
pub enum Layout {
    Local(u64),
    Remote(Vec<u64>),
}

impl Layout {
    pub fn hosts(&self) -> usize {
        match self {
            Layout::Local(_) => 1,
            Layout::Remote(h) => h.len(),
        }
    }
    pub fn total_cores(&self) -> u64 {
        match self {
            Layout::Local(p) => *p,
            Layout::Remote(h) => h.iter().sum(),
        }
    }
    pub fn name(&self) -> String {
        match self {
            Layout::Local(p) => format!("local{p}"),
            Layout::Remote(h) => format!(
                "remote{}",
                h.iter().map(|c| c.to_string()).collect::<Vec<_>>().join("+")
            ),
        }
    }
    pub fn config(&self, host: usize) -> RuntimeConfig {
        match self {
            Layout::Local(p) => RuntimeConfig::local(*p).unwrap(),
            Layout::Remote(h) => {
                let hosts: Vec<HostConfig> = h
                    .iter()
                    .enumerate()
                    .map(|(i, c)| HostConfig {
                        address: "127.0.0.1".into(),
                        base_port: 10000 + 1000 * i as u16,
                        num_cores: *c,
                        ssh: Default::default(),
                        perf_path: None,
                    })
                    .collect();
                ConfigBuilder::new_remote()
                    .add_hosts(&hosts)
                    .host_id(host as u64)
                    .build()
                    .unwrap()
            }
        }
    }
    pub fn env(&self, host: usize) -> StreamContext {
        StreamContext::new(self.config(host))
    }
}

/// Run `job(host, env)` once per host of the layout (each host in its own task, as separate
/// processes would) and wait for all of them. `job` builds the streams, calls
/// `execute_blocking` and logs its results. Returns the panic message of each host, if any.
pub fn run_hosts(
    layout: &Layout,
    job: Arc<dyn Fn(usize, StreamContext) + Send + Sync>,
) -> Vec<Option<String>> {
    let n = layout.hosts();
    if n == 1 {
        let env = layout.env(0);
        let r = std::panic::catch_unwind(std::panic::AssertUnwindSafe(|| job(0, env)));
        return vec![r.err().map(|p| panic_text(&p))];
    }
    let mut hs = vec![];
    for h in 0..n {
        let layout = layout.clone();
        let job = job.clone();
        hs.push(
            renoir::verif::thread::Builder::new()
                .name(format!("host-{h}"))
                .spawn(move || {
                    let env = layout.env(h);
                    job(h, env)
                })
                .unwrap(),
        );
    }
    hs.into_iter()
        .map(|h| h.join().err().map(|p| panic_text(&p)))
        .collect()
}

pub fn panic_text(p: &Box<dyn std::any::Any + Send>) -> String {
    if let Some(s) = p.downcast_ref::<&str>() {
        s.to_string()
    } else if let Some(s) = p.downcast_ref::<String>() {
        s.clone()
    } else {
        "<non-string panic payload>".to_string()
    }
}

/// Log a sink's content as a sorted multiset.
pub fn log_sink<T: Payload>(tag: &'static str, host: usize, v: Option<Vec<T>>) {
    match v {
        None => log(Ev::Note(tag, vec![host as i64, -1])),
        Some(v) => {
            let mut rows: Vec<Vec<i64>> = v.iter().map(|x| x.encoded()).collect();
            rows.sort();
            let mut flat = vec![host as i64, rows.len() as i64];
            for r in rows {
                flat.push(r.len() as i64);
                flat.extend(r);
            }
            log(Ev::Note(tag, flat));
        }
    }
}

/// Decode what `log_sink` wrote: (host, None | Some(rows)).
pub fn decode_sink(flat: &[i64]) -> (usize, Option<Vec<Vec<i64>>>) {
    let host = flat[0] as usize;
    if flat[1] < 0 {
        return (host, None);
    }
    let n = flat[1] as usize;
    let mut rows = vec![];
    let mut i = 2;
    for _ in 0..n {
        let l = flat[i] as usize;
        rows.push(flat[i + 1..i + 1 + l].to_vec());
        i += 1 + l;
    }
    (host, Some(rows))
}

/// All sink rows logged under `tag`, merged over hosts; `None` if no host published it.
pub fn sink_rows(logv: &[Ev], tag: &str) -> (usize, Option<Vec<Vec<i64>>>) {
    let mut published = 0;
    let mut rows: Vec<Vec<i64>> = vec![];
    for e in logv {
        if let Ev::Note(t, flat) = e {
            if *t == tag {
                if let (_, Some(r)) = decode_sink(flat) {
                    published += 1;
                    rows.extend(r);
                }
            }
        }
    }
    rows.sort();
    (published, if published > 0 { Some(rows) } else { None })
}

/// The payload of the injected faults that do not carry a message.
#[derive(Debug)]
pub struct InjectedFailure(pub usize);

/// Fault injection: panics when replica `replica` of its block is handed its `k`-th data element.
#[derive(Clone)]
pub struct PanicAt<Op: Operator> {
    prev: Op,
    replica: u64,
    k: usize,
    seen: usize,
    mine: bool,
    coord: C3,
}

impl<Op: Operator> Display for PanicAt<Op> {
    fn fmt(&self, f: &mut std::fmt::Formatter<'_>) -> std::fmt::Result {
        write!(f, "{} -> PanicAt", self.prev)
    }
}

impl<Op: Operator> Operator for PanicAt<Op> {
    type Out = Op::Out;
    fn setup(&mut self, metadata: &mut ExecutionMetadata) {
        self.prev.setup(metadata);
        self.mine = metadata.global_id == self.replica;
        let c = metadata.coord;
        self.coord = (c.block_id, c.host_id, c.replica_id);
    }
    fn next(&mut self) -> StreamElement<Op::Out> {
        let e = self.prev.next();
        if self.mine && matches!(e, StreamElement::Item(_) | StreamElement::Timestamped(..)) {
            self.seen += 1;
            if self.seen == self.k {
                log(Ev::Note("fault-fired", vec![self.coord.0 as i64, self.coord.1 as i64, self.coord.2 as i64]));
                // user code fails in more than one way: half of the injected faults unwind with
                // a payload that is not a string (`panic_any`, `resume_unwind` of an error value)
                if (self.replica as usize + self.k) % 2 == 1 {
                    std::panic::panic_any(InjectedFailure(self.k));
                }
                panic!("injected user-function failure");
            }
        }
        e
    }
    fn structure(&self) -> BlockStructure {
        self.prev
            .structure()
            .add_operator(OperatorStructure::new::<Op::Out, _>("PanicAt"))
    }
}

pub fn panic_at<Op: Operator + 'static>(s: Stream<Op>, replica: u64, k: usize) -> Stream<PanicAt<Op>> {
    s.add_operator(|prev| PanicAt {
        prev,
        replica,
        k,
        seen: 0,
        mine: false,
        coord: (0, 0, 0),
    })
}
