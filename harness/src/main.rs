#![allow(dead_code)]
mod conformance;
mod driver;
mod e2;
mod explore;
mod kit;
mod program;
mod props;
mod rt;
mod selftest;

use driver::Tier;

fn main() {
    if std::env::var("NV_DEBUG").is_err() {
        std::panic::set_hook(Box::new(|_| {}));
    }
    let args: Vec<String> = std::env::args().collect();
    let specs = props::all();
    let seed: i64 = std::env::var("VERIF_SEED")
        .ok()
        .and_then(|s| s.parse().ok())
        .unwrap_or(0);
    let code = match args.get(1).map(|s| s.as_str()) {
        Some("check") => {
            let id = args.get(2).cloned().unwrap_or_default();
            let tier = Tier::parse(args.get(3).map(|s| s.as_str()).unwrap_or("quick"));
            match specs.iter().find(|s| s.id == id) {
                Some(spec) => driver::check(spec, tier, seed),
                None => {
                    eprintln!("unknown property {id}");
                    2
                }
            }
        }
        Some("worker") => {
            let id = args.get(2).cloned().unwrap_or_default();
            let tier = Tier::parse(args.get(3).map(|s| s.as_str()).unwrap_or("quick"));
            if let Some(spec) = specs.iter().find(|s| s.id == id) {
                driver::worker(spec, tier);
            }
            0
        }
        Some("selftest") => {
            let a = selftest::run();
            let b = conformance::run();
            if a != 0 || b != 0 {
                2
            } else {
                0
            }
        }
        Some("conformance") => conformance::run() as i32,
        Some("replay") => driver::replay(&specs, args.get(2).map(|s| s.as_str()).unwrap_or("")),
        Some("list") => {
            let id = args.get(2).cloned().unwrap_or_default();
            let tier = Tier::parse(args.get(3).map(|s| s.as_str()).unwrap_or("quick"));
            if let Some(spec) = specs.iter().find(|s| s.id == id) {
                for s in driver::scenario_list(spec, tier) {
                    println!("{}", s.name);
                }
            }
            0
        }
        _ => {
            eprintln!("usage: nv check <PROP> <quick|thorough> | replay <file> | list <PROP> <tier>");
            2
        }
    };
    std::process::exit(code);
}
