//! Helpers for the single-component (E2) checks: build an operator chain with the public API on
//! a throw-away context, then drive exactly that chain.
use std::sync::Arc;

use renoir::operator::{Operator, StreamElement};
use renoir::verif::testkit;
use renoir::{BatchMode, Replication, RuntimeConfig, Stream, StreamContext};

use crate::explore::{hash_of, Check, Fail, Scenario};
use crate::kit::ScriptSource;
use crate::rt::{log, EnvParams, Ev, Order, Status};

pub type El<T> = StreamElement<T>;

/// A stream over a one-replica scripted source (on a context that is never executed).
pub fn script_stream<T: Clone + Send + Sync + 'static>(script: Vec<El<T>>) -> Stream<ScriptSource<T>> {
    let env = StreamContext::new(RuntimeConfig::local(1).unwrap());
    env.stream(ScriptSource::new(vec![script], Replication::One))
}

/// Set up a source-headed chain as replica 0 of 1 and pull it until `Terminate`.
pub fn drive<Op: Operator>(mut chain: Op) -> Vec<El<Op::Out>> {
    testkit::with_metadata(0, 0, 1, BatchMode::fixed(1024), |m| chain.setup(m));
    let mut out = vec![];
    for _ in 0..100_000 {
        let e = chain.next();
        let t = matches!(e, StreamElement::Terminate);
        out.push(e);
        if t {
            return out;
        }
    }
    panic!("operator chain did not terminate within 100000 elements");
}

/// A scenario whose body enumerates a whole family of cases in nested loops (no hidden choice,
/// nothing can block): `run` returns (cases, distinct non-trivial cases, first failure).
pub fn loop_scenario(
    name: String,
    descr: String,
    run: Arc<dyn Fn() -> (usize, usize, Option<Fail>) + Send + Sync>,
) -> Scenario {
    let body: crate::rt::Body = Arc::new(move || {
        let (cases, nontrivial, fail) = run();
        log(Ev::Note("cases", vec![cases as i64, nontrivial as i64]));
        if let Some(f) = fail {
            log(Ev::Text("fail-sig", f.sig));
            log(Ev::Text("fail-msg", f.msg));
        }
    });
    let check: Check = Arc::new(|r| {
        if r.status != Status::Done {
            return Err(Fail::new(
                "e2-abnormal",
                format!("enumeration did not complete: {:?}", r.status),
            ));
        }
        let mut sig = None;
        let mut msg = String::new();
        for e in &r.log {
            match e {
                Ev::Text("fail-sig", s) => sig = Some(s.clone()),
                Ev::Text("fail-msg", s) => msg = s.clone(),
                _ => {}
            }
        }
        match sig {
            Some(s) => Err(Fail::new(s, msg)),
            None => Ok(hash_of(&r.log)),
        }
    });
    Scenario {
        name,
        descr,
        params: EnvParams::default(),
        body,
        check,
        bound: 0,
        orders: vec![Order::RunAsc],
        max_execs: 0,
        shards: 1,
        nontrivial: true,
    }
}

/// Enumerate all sequences of length exactly `len` over `0..k` (odometer), calling `f`.
pub fn sequences(k: usize, len: usize, mut f: impl FnMut(&[usize])) {
    let mut cur = vec![0usize; len];
    loop {
        f(&cur);
        let mut i = len;
        loop {
            if i == 0 {
                return;
            }
            i -= 1;
            cur[i] += 1;
            if cur[i] < k {
                break;
            }
            cur[i] = 0;
        }
    }
}

/// Like `drive`, but every output element comes with the number of source elements consumed when
/// it was produced (`counter` is the one given to `ScriptSource::counted`).
pub fn drive_aligned<Op: Operator>(
    mut chain: Op,
    counter: &std::sync::atomic::AtomicUsize,
) -> Vec<(usize, El<Op::Out>)> {
    testkit::with_metadata(0, 0, 1, BatchMode::fixed(1024), |m| chain.setup(m));
    let mut out = vec![];
    for _ in 0..100_000 {
        let e = chain.next();
        let t = matches!(e, StreamElement::Terminate);
        out.push((counter.load(std::sync::atomic::Ordering::SeqCst), e));
        if t {
            return out;
        }
    }
    panic!("operator chain did not terminate within 100000 elements");
}

pub fn counted_stream<T: Clone + Send + Sync + 'static>(
    script: Vec<El<T>>,
) -> (Stream<ScriptSource<T>>, Arc<std::sync::atomic::AtomicUsize>) {
    let c = Arc::new(std::sync::atomic::AtomicUsize::new(0));
    let env = StreamContext::new(RuntimeConfig::local(1).unwrap());
    (
        env.stream(ScriptSource::new(vec![script], Replication::One).counted(c.clone())),
        c,
    )
}
