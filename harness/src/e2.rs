//! Helpers for the single-component (E2) checks: build an operator chain with the public API on
//! a throw-away context, then drive exactly that chain.
use std::sync::Arc;

use renoir::operator::{Operator, StreamElement};
use renoir::verif::testkit;
use renoir::{BatchMode, Replication, RuntimeConfig, Stream, StreamContext};

use crate::explore::{hash_of, Check, Fail, Scenario};
use crate::kit::ScriptSource;
use crate::rt::{log, EnvParams, Ev, Order, Status};

pub type El<T> = StreamElement<T>;

/// A stream over a one-replica scripted source (on a context that is never executed).
pub fn script_stream<T: Clone + Send + Sync + 'static>(script: Vec<El<T>>) -> Stream<ScriptSource<T>> {
    let env = StreamContext::new(RuntimeConfig::local(1).unwrap());
    env.stream(ScriptSource::new(vec![script], Replication::One))
}

/// Set up a source-headed chain as replica 0 of 1 and pull it until `Terminate`.
pub fn drive<Op: Operator>(mut chain: Op) -> Vec<El<Op::Out>> {
    testkit::with_metadata(0, 0, 1, BatchMode::fixed(1024), |m| chain.setup(m));
    let mut out = vec![];
    for _ in 0..100_000 {
        let e = chain.next();
        let t = matches!(e, StreamElement::Terminate);
        out.push(e);
        if t {
            return out;
        }
    }
    panic!("operator chain did not terminate within 100000 elements");
}

/// A scenario whose body enumerates a whole family of cases in nested loops (no hidden choice,
/// nothing can block): `run` returns (cases, distinct non-trivial cases, first failure).
pub fn loop_scenario(
    name: String,
    descr: String,
    run: Arc<dyn Fn() -> (usize, usize, Option<Fail>) + Send + Sync>,
) -> Scenario {
    let body: crate::rt::Body = Arc::new(move || {
        let (cases, nontrivial, fail) = run();
        log(Ev::Note("cases", vec![cases as i64, nontrivial as i64]));
        if STOPPED.with(|s| s.replace(false)) {
            log(Ev::Note("capped", vec![]));
        }
        if let Some(f) = fail {
            log(Ev::Text("fail-sig", f.sig));
            log(Ev::Text("fail-msg", f.msg));
        }
        // further failures with other signatures (see `FailSet`)
        for f in take_extra_fails() {
            log(Ev::Text("fail-sig", f.sig));
            log(Ev::Text("fail-msg", f.msg));
        }
    });
    let check: Check = Arc::new(|r| {
        if r.status != Status::Done {
            return Err(Fail::new(
                "e2-abnormal",
                format!("enumeration did not complete: {:?}", r.status),
            ));
        }
        match logged_fails(&r.log).into_iter().next() {
            Some(f) => Err(f),
            None => Ok(hash_of(&r.log)),
        }
    });
    Scenario {
        name,
        descr,
        params: EnvParams {
            max_steps: usize::MAX / 2,
            channel_capacity: 64,
            ..Default::default()
        },
        body,
        check,
        bound: 0,
        orders: vec![Order::RunAsc],
        max_execs: 0,
        shards: 1,
        nontrivial: true,
        unbounded: false,
        loop_body: true,
        sometimes: vec![],
    }
}

/// Enumerate all sequences of length exactly `len` over `0..k` (odometer), calling `f`.
pub fn sequences(k: usize, len: usize, mut f: impl FnMut(&[usize])) {
    let mut cur = vec![0usize; len];
    loop {
        if out_of_time() {
            return;
        }
        f(&cur);
        let mut i = len;
        loop {
            if i == 0 {
                return;
            }
            i -= 1;
            cur[i] += 1;
            if cur[i] < k {
                break;
            }
            cur[i] = 0;
        }
    }
}

/// Like `drive`, but every output element comes with the number of source elements consumed when
/// it was produced (`counter` is the one given to `ScriptSource::counted`).
pub fn drive_aligned<Op: Operator>(
    mut chain: Op,
    counter: &std::sync::atomic::AtomicUsize,
) -> Vec<(usize, El<Op::Out>)> {
    testkit::with_metadata(0, 0, 1, BatchMode::fixed(1024), |m| chain.setup(m));
    let mut out = vec![];
    for _ in 0..100_000 {
        let e = chain.next();
        let t = matches!(e, StreamElement::Terminate);
        out.push((counter.load(std::sync::atomic::Ordering::SeqCst), e));
        if t {
            return out;
        }
    }
    panic!("operator chain did not terminate within 100000 elements");
}

pub fn counted_stream<T: Clone + Send + Sync + 'static>(
    script: Vec<El<T>>,
) -> (Stream<ScriptSource<T>>, Arc<std::sync::atomic::AtomicUsize>) {
    let c = Arc::new(std::sync::atomic::AtomicUsize::new(0));
    let env = StreamContext::new(RuntimeConfig::local(1).unwrap());
    (
        env.stream(ScriptSource::new(vec![script], Replication::One).counted(c.clone())),
        c,
    )
}

/// All (signature, message) pairs a loop scenario logged.
pub fn logged_fails(logv: &[Ev]) -> Vec<Fail> {
    let mut out: Vec<Fail> = vec![];
    let mut sig: Option<String> = None;
    for e in logv {
        match e {
            Ev::Text("fail-sig", s) => sig = Some(s.clone()),
            Ev::Text("fail-msg", m) => {
                if let Some(s) = sig.take() {
                    if !out.iter().any(|f| f.sig == s) {
                        out.push(Fail::new(s, m.clone()));
                    }
                }
            }
            _ => {}
        }
    }
    out
}

thread_local! {
    static EXTRA: std::cell::RefCell<Vec<Fail>> = const { std::cell::RefCell::new(Vec::new()) };
}

fn take_extra_fails() -> Vec<Fail> {
    EXTRA.with(|e| std::mem::take(&mut *e.borrow_mut()))
}

/// Keeps the first failure of every distinct signature, so that an enumeration goes on after a
/// failure (a known finding must not hide a different violation). `first()` is what the loop
/// scenario returns; the others are picked up by the scenario wrapper.
#[derive(Default)]
pub struct FailSet {
    fails: Vec<Fail>,
}

impl FailSet {
    pub fn add(&mut self, f: Option<Fail>) {
        if let Some(f) = f {
            if self.fails.len() < 6 && !self.fails.iter().any(|x| x.sig == f.sig) {
                self.fails.push(f);
            }
        }
    }
    pub fn extend(&mut self, fs: Vec<Fail>) {
        for f in fs {
            self.add(Some(f));
        }
    }
    pub fn full(&self) -> bool {
        self.fails.len() >= 6
    }
    pub fn is_empty(&self) -> bool {
        self.fails.is_empty()
    }
    /// Hand over: the first failure is returned, the rest is stashed for the wrapper.
    pub fn first(mut self) -> Option<Fail> {
        if self.fails.is_empty() {
            return None;
        }
        let first = self.fails.remove(0);
        EXTRA.with(|e| *e.borrow_mut() = self.fails);
        Some(first)
    }
}

thread_local! {
    static STOPPED: std::cell::Cell<bool> = const { std::cell::Cell::new(false) };
    static TICK: std::cell::Cell<u32> = const { std::cell::Cell::new(0) };
}

/// To be polled inside long enumerations: true once the wall-clock budget is used up (the
/// scenario is then reported as capped, never as exhaustive).
pub fn out_of_time() -> bool {
    if STOPPED.with(|s| s.get()) {
        return true;
    }
    let t = TICK.with(|t| {
        let v = t.get().wrapping_add(1);
        t.set(v);
        v
    });
    if t % 256 == 0 && crate::rt::deadline_passed() {
        STOPPED.with(|s| s.set(true));
        return true;
    }
    false
}

/// (kind, timestamp) of every element, FlushBatch dropped.
pub fn shape<T>(out: &[El<T>]) -> Vec<(u8, Option<i64>)> {
    out.iter()
        .map(crate::kit::kind_of)
        .filter(|(k, _)| *k != crate::kit::K_FB)
        .collect()
}

/// The watermark-safety monitor (C06) on the shape of an output sequence.
pub fn watermark_safety(sh: &[(u8, Option<i64>)]) -> Option<(&'static str, String)> {
    let mut wm: Option<i64> = None;
    for (i, (k, t)) in sh.iter().enumerate() {
        match *k {
            crate::kit::K_WM => {
                let w = t.unwrap();
                if wm.map(|x| w <= x).unwrap_or(false) {
                    return Some(("watermark-not-increasing", format!("output #{i}: Watermark({w}) after Watermark({})", wm.unwrap())));
                }
                wm = Some(w);
            }
            crate::kit::K_TS => {
                let ts = t.unwrap();
                if wm.map(|x| ts <= x).unwrap_or(false) {
                    return Some(("element-behind-watermark", format!("output #{i}: element with timestamp {ts} after Watermark({})", wm.unwrap())));
                }
            }
            crate::kit::K_FAR => wm = None,
            _ => {}
        }
    }
    None
}

/// The grammar monitor (C05): ((Item|Timestamped|Watermark|FlushBatch)* FlushAndRestart)+ Terminate.
pub fn grammar(sh: &[(u8, Option<i64>)]) -> Option<(&'static str, String)> {
    let n = sh.len();
    if n == 0 || sh[n - 1].0 != crate::kit::K_TERM {
        return Some(("no-terminate", "sequence does not end with Terminate".into()));
    }
    if n < 2 || sh[n - 2].0 != crate::kit::K_FAR {
        return Some(("terminate-without-flush", "Terminate is not preceded by FlushAndRestart".into()));
    }
    for (i, (k, _)) in sh.iter().enumerate().take(n - 1) {
        if *k == crate::kit::K_TERM {
            return Some(("terminate-not-last", format!("Terminate at #{i} is not last")));
        }
        if *k == crate::kit::K_FAR && i > 0 && sh[i - 1].0 == crate::kit::K_FAR && i == n - 2 {
            // an empty iteration is fine
        }
    }
    None
}

/// Drive the chain of a block that has one upstream block, feeding `script` from one upstream
/// replica (one element per batch, or the whole script in one batch).
pub fn drive_one_upstream<T, Op>(vc: renoir::verif::VerifChain<Op>, script: Vec<El<T>>, one_batch: bool) -> Vec<El<Op::Out>>
where
    T: renoir::operator::ExchangeData,
    Op: Operator,
{
    let mut chain = vc.chain;
    let mut tb = testkit::Testbed::new(vc.block_id, 0, 1);
    let feeders = tb.upstream::<T>(vc.prev_blocks[0], 1);
    tb.setup(&mut chain, BatchMode::fixed(1024));
    let script = crate::kit::complete_script(script);
    if one_batch {
        feeders[0].send(script);
    } else {
        for e in script {
            feeders[0].send(vec![e]);
        }
    }
    drop(feeders);
    let mut out = vec![];
    for _ in 0..100_000 {
        let e = chain.next();
        let t = matches!(e, StreamElement::Terminate);
        out.push(e);
        if t {
            return out;
        }
    }
    panic!("operator chain did not terminate");
}

/// Drive the chain of a two-input block: every batch of both sides is queued up front (one
/// upstream replica per side unless `left_replicas` says otherwise), so the arrival interleaving
/// is decided by the answers of the two-way select - which the explorer enumerates.
pub fn drive_binary<L, R, Op>(
    vc: renoir::verif::VerifChain<Op>,
    left: Vec<Vec<Vec<El<L>>>>,
    right: Vec<Vec<Vec<El<R>>>>,
) -> Vec<El<Op::Out>>
where
    L: renoir::operator::ExchangeData,
    R: renoir::operator::ExchangeData,
    Op: Operator,
{
    let mut chain = vc.chain;
    let mut tb = testkit::Testbed::new(vc.block_id, 0, 1);
    let fl = tb.upstream::<L>(vc.prev_blocks[0], left.len() as u64);
    let fr = tb.upstream::<R>(vc.prev_blocks[1], right.len() as u64);
    tb.setup(&mut chain, BatchMode::fixed(1024));
    // the batches of the replicas of one side share one channel: their interleaving is a (free)
    // driver choice, so every arrival order of the replicas' batches is enumerated
    fn feed<T: renoir::operator::ExchangeData>(f: &[testkit::Feeder<T>], batches: Vec<Vec<Vec<El<T>>>>) {
        let mut its: Vec<std::collections::VecDeque<Vec<El<T>>>> = batches.into_iter().map(|b| b.into_iter().collect()).collect();
        loop {
            let live: Vec<usize> = (0..its.len()).filter(|i| !its[*i].is_empty()).collect();
            if live.is_empty() {
                break;
            }
            let pick = if live.len() == 1 { 0 } else { crate::rt::driver_choose(live.len()) };
            let r = live[pick];
            let b = its[r].pop_front().unwrap();
            f[r].send(b);
        }
    }
    feed(&fl, left);
    feed(&fr, right);
    drop(fl);
    drop(fr);
    let mut out = vec![];
    for _ in 0..100_000 {
        let e = chain.next();
        let t = matches!(e, StreamElement::Terminate);
        out.push(e);
        if t {
            return out;
        }
    }
    panic!("operator chain did not terminate");
}

/// One step of a timed two-input drive.
pub enum Step<L, R> {
    Left(Vec<El<L>>),
    Right(Vec<El<R>>),
    /// the block idles: it is pulled until its `Start` reports a batch timeout (`FlushBatch`)
    Idle,
}

/// Like `drive_binary` (one upstream replica per side) but step by step and with timed receives:
/// batches are fed in the given order, and at every `Idle` step the chain is pulled until it has
/// consumed what is available and the timed receive of its `Start` expires (virtual clock: time
/// passes when the single task blocks). An `Idle` with nothing fed since the previous one is
/// skipped (after a timeout `Start` waits without a deadline). The sides are closed at the end.
pub fn drive_binary_steps<L, R, Op>(vc: renoir::verif::VerifChain<Op>, steps: Vec<Step<L, R>>, batch: BatchMode) -> Vec<El<Op::Out>>
where
    L: renoir::operator::ExchangeData,
    R: renoir::operator::ExchangeData,
    Op: Operator,
{
    let mut chain = vc.chain;
    let mut tb = testkit::Testbed::new(vc.block_id, 0, 1);
    let fl = tb.upstream::<L>(vc.prev_blocks[0], 1);
    let fr = tb.upstream::<R>(vc.prev_blocks[1], 1);
    tb.setup(&mut chain, batch);
    let mut out = vec![];
    let mut fed = false;
    for st in steps {
        match st {
            Step::Left(b) => {
                fl[0].send(b);
                fed = true;
            }
            Step::Right(b) => {
                fr[0].send(b);
                fed = true;
            }
            Step::Idle => {
                if !fed {
                    continue;
                }
                fed = false;
                for _ in 0..100_000 {
                    let e = chain.next();
                    let stop = matches!(e, StreamElement::FlushBatch | StreamElement::Terminate);
                    out.push(e);
                    if stop {
                        break;
                    }
                }
            }
        }
    }
    if matches!(out.last(), Some(StreamElement::Terminate)) {
        return out;
    }
    drop(fl);
    drop(fr);
    for _ in 0..100_000 {
        let e = chain.next();
        let t = matches!(e, StreamElement::Terminate);
        out.push(e);
        if t {
            return out;
        }
    }
    panic!("operator chain did not terminate");
}

/// One element per batch; the end-of-iteration and termination markers in their own batches.
pub fn singleton_batches<T: Clone>(items: &[El<T>]) -> Vec<Vec<El<T>>> {
    let mut v: Vec<Vec<El<T>>> = items.iter().map(|e| vec![e.clone()]).collect();
    v.push(vec![StreamElement::FlushAndRestart]);
    v.push(vec![StreamElement::Terminate]);
    v
}

/// A scenario over the explorer: `run` is executed once per combination of select answers.
pub fn select_scenario(
    name: String,
    descr: String,
    run: Arc<dyn Fn() -> Option<Fail> + Send + Sync>,
) -> Scenario {
    let body: crate::rt::Body = Arc::new(move || {
        if let Some(f) = run() {
            log(Ev::Text("fail-sig", f.sig));
            log(Ev::Text("fail-msg", f.msg));
        }
    });
    let check: Check = Arc::new(|r| {
        match &r.status {
            Status::Done => {}
            Status::BodyPanic(p) => return Err(Fail::new("panic", format!("panic: {p}"))),
            Status::Deadlock(b) => return Err(Fail::new("blocked", format!("operator blocked waiting for input that will never come: {b}"))),
            other => return Err(Fail::new("abnormal", format!("{:?}", other))),
        }
        match logged_fails(&r.log).into_iter().next() {
            Some(f) => Err(f),
            None => Ok(hash_of(&r.trace)),
        }
    });
    Scenario {
        name,
        descr,
        params: EnvParams {
            channel_capacity: 64,
            free_kinds: vec![crate::rt::Kind::Driver, crate::rt::Kind::Select],
            ..Default::default()
        },
        body,
        check,
        bound: 0,
        orders: vec![Order::RunAsc],
        max_execs: 0,
        shards: 1,
        nontrivial: true,
        unbounded: false,
        loop_body: false,
        sometimes: vec![],
    }
}
