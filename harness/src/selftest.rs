//! Engine self-tests run by `./check --setup`: the explorer must find a lost update, report a
//! deadlock as a deadlock, fire virtual timers, and be deterministic.
use std::sync::atomic::{AtomicUsize, Ordering};
use std::sync::Arc;
use std::time::Duration;

use renoir::verif::flume_shim::{bounded, RecvTimeoutError};
use renoir::verif::thread;

use crate::explore::{explore, hash_of, Check, Fail, Scenario};
use crate::rt::{log, EnvParams, Ev, Order, Status};

fn scenario(name: &str, body: crate::rt::Body, check: Check, bound: usize) -> Scenario {
    Scenario {
        name: name.into(),
        descr: name.into(),
        params: EnvParams::default(),
        body,
        check,
        bound,
        orders: vec![Order::RunAsc, Order::RunDesc, Order::RoundRobin],
        max_execs: 0,
        shards: 1,
        nontrivial: true,
        unbounded: false,
        loop_body: false,
        sometimes: vec![],
    }
}

pub fn run() -> i32 {
    let mut bad = 0;
    // 1. lost update: two tasks read a counter, pass a scheduling point, write back
    let body: crate::rt::Body = Arc::new(|| {
        let n = Arc::new(AtomicUsize::new(0));
        let (tx, rx) = bounded::<()>(4);
        let hs: Vec<_> = (0..2)
            .map(|_| {
                let n = n.clone();
                let tx = tx.clone();
                thread::spawn(move || {
                    let v = n.load(Ordering::SeqCst);
                    tx.send(()).unwrap();
                    n.store(v + 1, Ordering::SeqCst);
                })
            })
            .collect();
        for h in hs {
            h.join().unwrap();
        }
        drop(rx);
        log(Ev::Note("counter", vec![n.load(Ordering::SeqCst) as i64]));
    });
    let check: Check = Arc::new(|r| {
        for e in &r.log {
            if let Ev::Note("counter", v) = e {
                if v[0] != 2 {
                    return Err(Fail::new("lost-update", format!("counter = {}", v[0])));
                }
            }
        }
        Ok(hash_of(&r.log))
    });
    let rep = explore(&scenario("selftest/lost-update", body, check, 1), 0, 1, None);
    if rep.violations.is_empty() || !rep.machinery_errors.is_empty() {
        eprintln!("selftest: lost update NOT found ({} executions, {:?})", rep.executions, rep.machinery_errors);
        bad += 1;
    } else {
        println!("selftest: lost update found after {} executions", rep.executions);
    }
    // 2. deadlock is reported as a deadlock
    let body: crate::rt::Body = Arc::new(|| {
        let (tx1, rx1) = bounded::<u8>(1);
        let (tx2, rx2) = bounded::<u8>(1);
        let h = thread::spawn(move || {
            let _ = rx1.recv();
            let _ = tx2.send(1);
        });
        let _ = rx2.recv();
        let _ = tx1.send(1);
        let _ = h.join();
    });
    let r = crate::rt::run_once(vec![], Order::RunAsc, EnvParams::default(), body);
    if !matches!(r.status, Status::Deadlock(_)) {
        eprintln!("selftest: deadlock not reported, status {:?}", r.status);
        bad += 1;
    } else {
        println!("selftest: deadlock reported: {:?}", r.status);
    }
    // 3. virtual timers
    let body: crate::rt::Body = Arc::new(|| {
        let (_tx, rx) = bounded::<u8>(1);
        let r = rx.recv_timeout(Duration::from_millis(50));
        assert_eq!(r, Err(RecvTimeoutError::Timeout));
        log(Ev::Note("timeout", vec![]));
    });
    let r = crate::rt::run_once(vec![], Order::RunAsc, EnvParams::default(), body);
    if r.status != Status::Done || r.virtual_time != Duration::from_millis(50) {
        eprintln!("selftest: timer did not fire as expected: {:?} at {:?}", r.status, r.virtual_time);
        bad += 1;
    } else {
        println!("selftest: virtual timer fired at {:?}", r.virtual_time);
    }
    if bad == 0 {
        0
    } else {
        2
    }
}
