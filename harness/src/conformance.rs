//! Conformance of the environment model with the real libraries: the same small bodies are
//! (a) explored exhaustively on the model (flume_shim + model threads), giving the set of possible
//! outcomes, and (b) run free-running many times on real flume + OS threads; every real outcome
//! must be in the explored set. (b) is sampling, but it decides no property: it is the evidence
//! binding the channel model to the library it stands for.
use std::collections::BTreeSet;
use std::sync::{Arc, Mutex};
use std::time::Duration;

use crate::explore::{explore, hash_of, Check, Scenario};
use crate::rt::{log, EnvParams, Ev, Kind, Order, Status};

macro_rules! bodies {
    ($modname:ident, $chan:path, $thread:path) => {
        pub mod $modname {
            use std::time::Duration;
            use $chan as ch;
            use $thread as th;

            pub fn two_producers_fifo() -> String {
                let (tx, rx) = ch::bounded::<(u8, u8)>(1);
                let hs: Vec<_> = (0..2u8)
                    .map(|p| {
                        let tx = tx.clone();
                        th::spawn(move || {
                            for i in 0..2u8 {
                                tx.send((p, i)).unwrap();
                            }
                        })
                    })
                    .collect();
                drop(tx);
                let mut got = vec![];
                while let Ok(v) = rx.recv() {
                    got.push(v);
                }
                for h in hs {
                    h.join().unwrap();
                }
                format!("{:?}", got)
            }

            pub fn drain_after_disconnect() -> String {
                let (tx, rx) = ch::bounded::<u8>(4);
                tx.send(1).unwrap();
                tx.send(2).unwrap();
                drop(tx);
                let a = rx.recv();
                let b = rx.try_recv();
                let c = rx.recv();
                let d = rx.try_recv();
                format!("{:?} {:?} {:?} {:?}", a.ok(), b.ok(), c.is_err(), d.is_err())
            }

            pub fn send_to_dropped_receiver() -> String {
                let (tx, rx) = ch::bounded::<u8>(1);
                tx.send(1).unwrap();
                let h = th::spawn(move || tx.send(2).is_err());
                drop(rx);
                format!("{}", h.join().unwrap())
            }

            pub fn try_recv_empty_then_disconnected() -> String {
                let (tx, rx) = ch::unbounded::<u8>();
                let a = format!("{:?}", rx.try_recv());
                drop(tx);
                let b = format!("{:?}", rx.try_recv());
                format!("{a} {b}")
            }

            pub fn recv_timeout_times_out() -> String {
                let (tx, rx) = ch::bounded::<u8>(1);
                let a = rx.recv_timeout(Duration::from_millis(20)).is_err();
                tx.send(7).unwrap();
                let b = rx.recv_timeout(Duration::from_millis(20)).ok();
                format!("{a} {:?}", b)
            }

            pub fn blocked_sender_resumes() -> String {
                let (tx, rx) = ch::bounded::<u8>(1);
                tx.send(1).unwrap();
                let h = th::spawn(move || {
                    tx.send(2).unwrap();
                    3u8
                });
                let a = rx.recv().unwrap();
                let b = rx.recv().unwrap();
                format!("{a} {b} {}", h.join().unwrap())
            }

            pub fn select_both_ready() -> String {
                let (ta, ra) = ch::bounded::<u8>(1);
                let (tb, rb) = ch::bounded::<u8>(1);
                ta.send(1).unwrap();
                tb.send(2).unwrap();
                let first = ch::Selector::new()
                    .recv(&ra, |e| e.map(|v| ('a', v)).ok())
                    .recv(&rb, |e| e.map(|v| ('b', v)).ok())
                    .wait();
                format!("{:?}", first)
            }

            pub fn select_disconnected_side_is_ready() -> String {
                let (ta, ra) = ch::bounded::<u8>(1);
                let (tb, rb) = ch::bounded::<u8>(1);
                drop(ta);
                let _keep = tb;
                let r = ch::Selector::new()
                    .recv(&ra, |e| format!("a:{}", e.is_err()))
                    .recv(&rb, |e| format!("b:{}", e.is_err()))
                    .wait();
                r
            }

            pub fn select_timeout_nothing_ready() -> String {
                let (_ta, ra) = ch::bounded::<u8>(1);
                let (_tb, rb) = ch::bounded::<u8>(1);
                let r = ch::Selector::new()
                    .recv(&ra, |e| e.is_ok())
                    .recv(&rb, |e| e.is_ok())
                    .wait_timeout(Duration::from_millis(20));
                format!("{}", r.is_err())
            }

            pub fn select_waits_for_late_message() -> String {
                let (ta, ra) = ch::bounded::<u8>(1);
                let (_tb, rb) = ch::bounded::<u8>(1);
                let h = th::spawn(move || ta.send(9).unwrap());
                let r = ch::Selector::new()
                    .recv(&ra, |e| e.ok())
                    .recv(&rb, |e| e.ok())
                    .wait();
                h.join().unwrap();
                format!("{:?}", r)
            }

            pub fn disconnect_needs_all_senders() -> String {
                let (tx, rx) = ch::bounded::<u8>(2);
                let tx2 = tx.clone();
                drop(tx);
                let a = format!("{:?}", rx.try_recv());
                tx2.send(5).unwrap();
                drop(tx2);
                let b = rx.recv().ok();
                let c = rx.recv().is_err();
                format!("{a} {:?} {c}", b)
            }

            pub fn unbounded_never_blocks() -> String {
                let (tx, rx) = ch::unbounded::<u32>();
                for i in 0..100 {
                    tx.send(i).unwrap();
                }
                drop(tx);
                let mut n = 0;
                let mut ordered = true;
                let mut last = None;
                while let Ok(v) = rx.recv() {
                    if let Some(l) = last {
                        ordered &= v == l + 1;
                    }
                    last = Some(v);
                    n += 1;
                }
                format!("{n} {ordered}")
            }

            pub fn independent_pairs() -> String {
                // two producer/consumer pairs on separate channels: their operations commute
                let mut hs = vec![];
                let mut rxs = vec![];
                for p in 0..2u8 {
                    let (tx, rx) = ch::bounded::<u8>(1);
                    rxs.push(rx);
                    hs.push(th::spawn(move || {
                        for i in 0..2u8 {
                            tx.send(p * 10 + i).unwrap();
                        }
                    }));
                }
                let cs: Vec<_> = rxs
                    .into_iter()
                    .map(|rx| {
                        th::spawn(move || {
                            let mut v = vec![];
                            while let Ok(x) = rx.recv() {
                                v.push(x);
                            }
                            v
                        })
                    })
                    .collect();
                for h in hs {
                    h.join().unwrap();
                }
                let got: Vec<Vec<u8>> = cs.into_iter().map(|c| c.join().unwrap()).collect();
                format!("{:?}", got)
            }

            pub const ALL: &[(&str, fn() -> String)] = &[
                ("independent_pairs", independent_pairs),
                ("two_producers_fifo", two_producers_fifo),
                ("drain_after_disconnect", drain_after_disconnect),
                ("send_to_dropped_receiver", send_to_dropped_receiver),
                ("try_recv_empty_then_disconnected", try_recv_empty_then_disconnected),
                ("recv_timeout_times_out", recv_timeout_times_out),
                ("blocked_sender_resumes", blocked_sender_resumes),
                ("select_both_ready", select_both_ready),
                ("select_disconnected_side_is_ready", select_disconnected_side_is_ready),
                ("select_timeout_nothing_ready", select_timeout_nothing_ready),
                ("select_waits_for_late_message", select_waits_for_late_message),
                ("disconnect_needs_all_senders", disconnect_needs_all_senders),
                ("unbounded_never_blocks", unbounded_never_blocks),
            ];
        }
    };
}

bodies!(model, renoir::verif::flume_shim, renoir::verif::thread);
bodies!(real, flume, std::thread);

/// Returns the number of problems found (0 = the model conforms on every body).
pub fn run() -> usize {
    let mut problems = 0;
    for ((name, fm), (_, fr)) in model::ALL.iter().zip(real::ALL.iter()) {
        // (a) every outcome of the model
        let outcomes: Arc<Mutex<BTreeSet<String>>> = Default::default();
        let o2 = outcomes.clone();
        let fm = *fm;
        let body: crate::rt::Body = Arc::new(move || {
            let s = fm();
            log(Ev::Text("outcome", s));
        });
        let check: Check = Arc::new(move |r| {
            if r.status != Status::Done {
                o2.lock().unwrap().insert(format!("<{:?}>", r.status));
                return Ok(0);
            }
            for e in &r.log {
                if let Ev::Text("outcome", s) = e {
                    o2.lock().unwrap().insert(s.clone());
                }
            }
            Ok(hash_of(&r.log))
        });
        let sc = Scenario {
            name: format!("conformance/{name}"),
            descr: name.to_string(),
            params: EnvParams { free_kinds: vec![Kind::Driver, Kind::Select], ..Default::default() },
            body,
            check,
            // small bodies: a bound of 6 deviations covers every schedule they have
            bound: 6,
            orders: vec![Order::RunAsc],
            max_execs: 200_000,
            shards: 1,
            nontrivial: true,
            unbounded: false,
            loop_body: false,
            sometimes: vec![],
        };
        let rep = explore(&sc, 0, 1, None);
        let model_outcomes = outcomes.lock().unwrap().clone();
        // the same body without bound, with sleep sets: the reduction must not lose an outcome
        outcomes.lock().unwrap().clear();
        let mut sc2 = sc.clone();
        sc2.unbounded = true;
        sc2.name = format!("conformance-ss/{name}");
        let rep2 = explore(&sc2, 0, 1, None);
        let ss_outcomes = outcomes.lock().unwrap().clone();
        if ss_outcomes != model_outcomes || !rep2.machinery_errors.is_empty() {
            problems += 1;
            eprintln!("  sleep-set reduction changed the outcomes of {name}: {:?} vs {:?} ({:?})", ss_outcomes, model_outcomes, rep2.machinery_errors);
        }
        // (b) the real library, free running
        let mut real_outcomes = BTreeSet::new();
        for _ in 0..200 {
            real_outcomes.insert(fr());
        }
        let missing: Vec<&String> = real_outcomes.iter().filter(|o| !model_outcomes.contains(*o)).collect();
        let ok = missing.is_empty() && rep.machinery_errors.is_empty() && !model_outcomes.iter().any(|o| o.starts_with('<'));
        println!(
            "conformance {name}: model {} outcomes in {} executions ({} with sleep sets, {} sleep-blocked), real {} outcomes in 200 runs{}",
            model_outcomes.len(),
            rep.executions,
            rep2.executions,
            rep2.sleep_blocked,
            real_outcomes.len(),
            if ok { "" } else { "  <-- MISMATCH" }
        );
        if !ok {
            problems += 1;
            eprintln!("  model: {:?}\n  real:  {:?}\n  errors: {:?}", model_outcomes, real_outcomes, rep.machinery_errors);
        }
    }
    let _ = Duration::from_millis(0);
    problems
}
