//! C02, component level: the batcher keeps order and flushes its tail; the TCP framing survives
//! every segmentation of the byte stream.
use std::io::Read;
use std::sync::Arc;
use std::time::Duration;

use renoir::operator::StreamElement;
use renoir::verif::testkit::{frame_recv, frame_send, BatcherKit};
use renoir::BatchMode;

use crate::driver::Tier;
use crate::e2::{loop_scenario, sequences};
use crate::explore::{Fail, Scenario};

fn batcher_case(mode: BatchMode, ops: &[usize], delay_ms: u64) -> Option<Fail> {
    // ops: 0 enqueue item, 1 enqueue watermark, 2 flush, 3 advance the clock past the delay
    let (mut b, drain) = BatcherKit::<i64>::new(mode);
    let mut expected: Vec<StreamElement<i64>> = vec![];
    let mut n = 0i64;
    let mut buffered = 0usize;
    let descr = || format!("batcher mode {:?} ops {:?} (0 enqueue item, 1 enqueue watermark, 2 flush, 3 clock += delay+1ms)", mode, ops);
    let mut received: Vec<StreamElement<i64>> = vec![];
    for &op in ops {
        match op {
            0 | 1 => {
                let e = if op == 0 { StreamElement::Item(n) } else { StreamElement::Watermark(n) };
                n += 1;
                expected.push(e.clone());
                b.enqueue(e);
                buffered += 1;
            }
            2 => {
                b.flush();
                buffered = 0;
            }
            _ => crate::rt::advance(Duration::from_millis(delay_ms + 1)),
        }
        while let Some((_, batch)) = drain.try_recv() {
            if batch.is_empty() {
                return Some(Fail::new("c02-batcher-empty-batch", format!("{}: empty batch sent", descr())));
            }
            received.extend(batch);
        }
        // after an explicit flush nothing may stay in the buffer
        if op == 2 && received != expected {
            return Some(Fail::new("c02-batcher-flush", format!("{}: after flush received {:?}, enqueued {:?}", descr(), received, expected)));
        }
        // what was received so far is a prefix of what was enqueued
        if received.len() > expected.len() || received[..] != expected[..received.len()] {
            return Some(Fail::new("c02-batcher-order", format!("{}: received {:?}, enqueued {:?}", descr(), received, expected)));
        }
        // a size-bounded mode never holds more than its size
        let held = expected.len() - received.len();
        if held >= mode.max_size() && !matches!(mode, BatchMode::Single) || (matches!(mode, BatchMode::Single) && held > 0) {
            return Some(Fail::new("c02-batcher-overfull", format!("{}: {} elements held with max size {}", descr(), held, mode.max_size())));
        }
        let _ = buffered;
    }
    b.end();
    while let Some((_, batch)) = drain.try_recv() {
        received.extend(batch);
    }
    if received != expected {
        return Some(Fail::new("c02-batcher-tail", format!("{}: after end received {:?}, enqueued {:?}", descr(), received, expected)));
    }
    None
}

/// A reader handing out the byte stream in the given chunk sizes (cyclically).
struct Chunked<'a> {
    data: &'a [u8],
    pos: usize,
    chunks: &'a [usize],
    i: usize,
}
impl Read for Chunked<'_> {
    fn read(&mut self, buf: &mut [u8]) -> std::io::Result<usize> {
        if self.pos >= self.data.len() || buf.is_empty() {
            return Ok(0);
        }
        let want = self.chunks[self.i % self.chunks.len()].max(1);
        self.i += 1;
        let k = want.min(buf.len()).min(self.data.len() - self.pos);
        buf[..k].copy_from_slice(&self.data[self.pos..self.pos + k]);
        self.pos += k;
        Ok(k)
    }
}

fn payload(size_code: usize, tag: i64) -> Vec<StreamElement<Vec<u8>>> {
    let sizes = [0usize, 1, 2, 255, 256, 70_000];
    let n = sizes[size_code];
    vec![
        StreamElement::Timestamped(vec![(tag as u8).wrapping_add(1); n], tag),
        StreamElement::Watermark(tag),
    ]
}

fn framing_case(msgs: &[usize], chunks: &[usize]) -> Option<Fail> {
    // msgs: per message, size code (0..6) ; destination replica = index % 2, sender replica = index
    let mut wire: Vec<u8> = vec![];
    let mut expected = vec![];
    for (i, &m) in msgs.iter().enumerate() {
        let batch = payload(m, i as i64);
        let sender = (3, 1, i as u64);
        let dest = (7, 0, (i % 2) as u64);
        frame_send::<Vec<u8>, _>(batch.clone(), sender, dest, 3, &mut wire);
        expected.push((dest, 3u64, sender, batch));
    }
    let mut r = Chunked { data: &wire, pos: 0, chunks, i: 0 };
    let mut got = vec![];
    let res = std::panic::catch_unwind(std::panic::AssertUnwindSafe(|| {
        while let Some(x) = frame_recv::<Vec<u8>, _>(7, 0, 3, &mut r) {
            got.push(x);
        }
    }));
    let descr = format!("messages with payload size codes {:?} (0,1,2,255,256,70000 bytes), reads of {:?} bytes", msgs, chunks);
    if let Err(p) = res {
        return Some(Fail::new("c02-framing-panic", format!("{descr}: {}", crate::kit::panic_text(&p))));
    }
    if got != expected {
        return Some(Fail::new(
            "c02-framing",
            format!("{descr}: received {} messages (dest, sender) {:?}, sent {:?}", got.len(),
                got.iter().map(|g| (g.0, g.2)).collect::<Vec<_>>(), expected.iter().map(|g| (g.0, g.2)).collect::<Vec<_>>()),
        ));
    }
    None
}

pub fn scenarios(tier: Tier) -> Vec<Scenario> {
    let mut out = vec![];
    let len = if tier == Tier::Quick { 6 } else { 8 };
    let modes = vec![
        BatchMode::single(),
        BatchMode::fixed(1),
        BatchMode::fixed(2),
        BatchMode::fixed(3),
        BatchMode::adaptive(2, Duration::from_millis(5)),
        BatchMode::adaptive(3, Duration::from_millis(5)),
        BatchMode::adaptive(1024, Duration::from_millis(5)),
    ];
    // long operation sequences: full batches of the default size (1024) are cut by size
    out.push(loop_scenario(
        "C02/batcher/long-sequences".to_string(),
        "sequences of 2500 batcher operations (mostly enqueues, a watermark every 97, a flush every 1301, a clock advance every 700 operations) for fixed 1024 / adaptive 1024 / fixed 100".to_string(),
        Arc::new(move || {
            let mut cases = 0;
            let mut fail = None;
            for mode in [BatchMode::fixed(1024), BatchMode::adaptive(1024, Duration::from_millis(5)), BatchMode::fixed(100)] {
                for phase in [0usize, 1, 2] {
                    let ops: Vec<usize> = (0..2500usize).map(|i| if (i + phase) % 1301 == 1300 { 2 } else if (i + phase) % 700 == 699 { 3 } else if (i + phase) % 97 == 96 { 1 } else { 0 }).collect();
                    cases += 1;
                    if fail.is_none() {
                        fail = batcher_case(mode, &ops, 5).map(|f| Fail::new(f.sig.clone(), format!("long sequence (phase {phase}) in mode {:?}: {}", mode, f.msg.chars().take(300).collect::<String>())));
                    }
                }
            }
            (cases, cases, fail)
        }),
    ));
    for mode in modes {
        out.push(loop_scenario(
            format!("C02/batcher/{:?}/len{len}", mode).replace(' ', ""),
            format!("all sequences of <= {len} batcher operations (enqueue item, enqueue watermark, flush, advance the clock) then end, mode {:?}", mode),
            Arc::new(move || {
                let mut cases = 0;
                let mut fail = None;
                for l in 0..=len {
                    sequences(4, l, |ops| {
                        if fail.is_some() {
                            return;
                        }
                        cases += 1;
                        fail = batcher_case(mode, ops, 5);
                    });
                }
                (cases, cases - 1, fail)
            }),
        ));
    }
    let nmsgs = if tier == Tier::Quick { 2 } else { 3 };
    out.push(loop_scenario(
        format!("C02/framing/msgs{nmsgs}"),
        format!("all sequences of <= {nmsgs} framed batches with payload sizes {{0,1,2,255,256,70000}} to 2 endpoints through remote_send -> byte stream -> remote_recv, for every read-size pattern of length <= 3 over {{1, 19, 20, 21, 4096}}"),
        Arc::new(move || {
            let mut cases = 0;
            let mut fail = None;
            let sizes = [1usize, 19, 20, 21, 4096];
            for l in 1..=nmsgs {
                sequences(6, l, |msgs| {
                    for cl in 1..=3 {
                        sequences(5, cl, |c| {
                            if fail.is_some() {
                                return;
                            }
                            let chunks: Vec<usize> = c.iter().map(|x| sizes[*x]).collect();
                            // 70000-byte payloads read byte by byte are slow and add nothing over 255
                            if chunks.iter().all(|c| *c == 1) && msgs.iter().any(|m| *m == 5) {
                                return;
                            }
                            cases += 1;
                            fail = framing_case(msgs, &chunks);
                        });
                    }
                });
            }
            (cases, cases, fail)
        }),
    ));
    out
}
