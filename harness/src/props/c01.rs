//! C01: deployment transparency - a job's result equals its sequential meaning.
use renoir::BatchMode;

use crate::driver::{PropSpec, Tier};
use crate::explore::Scenario;
use crate::kit::Layout;
use crate::program::Instr::*;
use crate::program::{enumerate, well_formed, Instr, Program};
use crate::props::common::*;

fn alphabet() -> Vec<Instr> {
    vec![
        Map, Filter, FlatMap, Shuffle, ReplOne, GbSum, GbReduceMax, GbFoldAssoc, GbReduceAssoc, Fold,
        FoldAssoc, Reduce, ReduceAssoc, BcastMax, KeyedMap, Dup, Merge,
        Join(0, 0, 0),
    ]
}

fn templates() -> Vec<Program> {
    vec![
        vec![Dup, Map, Swap, Shuffle, Merge],
        vec![Dup, Map, Sink, Filter, Sink],
        vec![Dup, Map, Join(0, 0, 0)],
        vec![Dup, Map, Join(1, 0, 0)],
        vec![Dup, Map, Join(2, 0, 0)],
        vec![Dup, Map, Join(0, 0, 1)],
        vec![Dup, Map, Join(2, 0, 1)],
        vec![Dup, Map, Join(0, 2, 0)],
        vec![Dup, Map, Join(1, 2, 0)],
        vec![Dup, Filter, Join(2, 2, 0)],
        vec![Dup, Shuffle, Join(0, 1, 0)],
        vec![Dup, Shuffle, Join(1, 1, 1)],
        vec![Replay(2, vec![Map])],
        vec![Replay(2, vec![Shuffle, GbSum])],
        vec![Iterate(2, vec![Map])],
        vec![Iterate(2, vec![Shuffle, Filter])],
        vec![Replay(2, vec![Replay(2, vec![Map])])],
        vec![Shuffle, Replay(2, vec![Map]), Map],
        vec![ReplLim2, Map],
    ]
}

fn build(tier: Tier) -> Vec<Scenario> {
    let mut out = vec![];
    let maxlen = match tier {
        Tier::Quick => 2,
        Tier::Thorough => 3,
    };
    let (bound, inputs): (usize, Vec<Vec<i64>>) = match tier {
        Tier::Quick => (1, vec![vec![1, 2, 3, 4]]),
        Tier::Thorough => (2, vec![vec![], vec![3], vec![1, 2, 3, 4], vec![0, 2, 4, 6, 3]]),
    };
    let cfgs: Vec<(JobCfg, SrcKind)> = match tier {
        Tier::Quick => vec![
            (JobCfg { layout: Layout::Local(1), batch: BatchMode::fixed(2), capacity: 0 }, SrcKind::Iter),
            (JobCfg { layout: Layout::Local(2), batch: BatchMode::fixed(1), capacity: 0 }, SrcKind::Par(vec![0, 1, 0, 1])),
        ],
        Tier::Thorough => vec![
            (JobCfg { layout: Layout::Local(1), batch: BatchMode::fixed(2), capacity: 0 }, SrcKind::Iter),
            (JobCfg { layout: Layout::Local(2), batch: BatchMode::fixed(1), capacity: 0 }, SrcKind::Par(vec![0, 1, 0, 1, 1])),
            (JobCfg { layout: Layout::Local(2), batch: BatchMode::single(), capacity: 1 }, SrcKind::Iter),
            (JobCfg { layout: Layout::Local(3), batch: BatchMode::fixed(1024), capacity: 0 }, SrcKind::Par(vec![2, 1, 0, 1, 2])),
        ],
    };
    for (cfg, src) in &cfgs {
        let mut programs: Vec<Program> = vec![];
        for l in 1..=maxlen {
            programs.extend(enumerate(&alphabet(), l, src.rep()));
        }
        programs.extend(templates().into_iter().filter(|p| well_formed(p, src.rep()).is_some()));
        for prog in &programs {
            for input in &inputs {
                {
                let sig = if prog.contains(&ReplLim2) { "repl-limited:" } else { "" };
                out.push(program_scenario(
                    "C01",
                    prog,
                    input,
                    src.clone(),
                    cfg,
                    bound,
                    &ORDERS3[..if tier == Tier::Quick { 1 } else { 3 }],
                    sig.to_string(),
                ));
                }
            }
        }
    }
    // explicit replication changes on wider layouts (fewer consumer replicas than producers)
    let repl_progs: Vec<Program> = vec![
        vec![ReplLim2, Map],
        vec![Map, ReplLim2, Shuffle],
        vec![ReplLim2, GbSum],
        vec![Shuffle, ReplLim2, Fold],
        vec![ReplOne, Map],
        vec![ReplHost, Map, Shuffle],
        vec![Dup, ReplLim2, Swap, ReplLim2, Merge],
        // (raising the replication again through a forward link - e.g. One then Unlimited - is
        // rejected loudly at start-up by the engine: "Channel for endpoint ... not registered";
        // such programs are outside the algebra and are not generated)
    ];
    for p in [3u64, 4] {
        let cfg = JobCfg { layout: Layout::Local(p), batch: BatchMode::fixed(1), capacity: 0 };
        let src = SrcKind::Par((0..6).map(|i| i % p as usize).collect());
        for prog in &repl_progs {
            out.push(program_scenario(
                "C01/repl",
                prog,
                &[1, 2, 3, 4, 5, 6],
                src.clone(),
                &cfg,
                if tier == Tier::Quick { 0 } else { 1 },
                &ORDERS3,
                "repl-limited:".to_string(),
            ));
        }
    }
    // the same replication changes on three uneven hosts: the consumer replicas of one host are
    // fed by producers of different remote hosts (each demultiplexer must accept them all)
    for layout in [Layout::Remote(vec![2, 1, 1]), Layout::Remote(vec![1, 2, 1])] {
        let cores = layout.total_cores() as usize;
        let cfg = JobCfg { layout, batch: BatchMode::fixed(2), capacity: 0 };
        for prog in repl_progs.iter().take(if tier == Tier::Quick { 4 } else { repl_progs.len() }) {
            out.push(program_scenario(
                "C01/repl",
                prog,
                &[1, 2, 3, 4, 5, 6, 7, 8],
                SrcKind::Par((0..8).map(|i| i % cores).collect()),
                &cfg,
                0,
                &ORDERS3[..1],
                "repl-limited:".to_string(),
            ));
        }
    }
    // the templates once more with adaptive batching (timeout paths of Start and Batcher)
    {
        let cfg = JobCfg { layout: Layout::Local(2), batch: BatchMode::adaptive(2, std::time::Duration::from_millis(10)), capacity: 0 };
        let src = SrcKind::Par(vec![0, 1, 0, 1]);
        for prog in templates().into_iter().filter(|p| well_formed(p, src.rep()).is_some()) {
            out.push(program_scenario("C01/adaptive", &prog, &[1, 2, 3, 4], src.clone(), &cfg, bound, &ORDERS3[..1], String::new()));
        }
    }
    // count windows depend on arrival order: fully sequential configuration only
    let seq_cfg = JobCfg { layout: Layout::Local(1), batch: BatchMode::fixed(2), capacity: 0 };
    let seq_progs: Vec<Program> = vec![
        vec![CountWin],
        vec![Map, CountWin],
        vec![Replay(2, vec![CountWin])],
        vec![Replay(3, vec![Map, CountWin])],
        vec![Iterate(2, vec![CountWin])],
        vec![Dup, CountWin, Sink, Fold, Sink],
    ];
    for prog in &seq_progs {
        for input in [vec![1i64, 2, 3, 4, 5], vec![2, 4, 6], vec![1, 3, 5, 7, 2]] {
            out.push(program_scenario(
                "C01/seq",
                prog,
                &input,
                SrcKind::Par(vec![0; input.len()]),
                &seq_cfg,
                if tier == Tier::Quick { 1 } else { 2 },
                &ORDERS3,
                String::new(),
            ));
        }
    }
    // breadth of the public API: every remaining stateless/keyed/timestamp operator and every sink
    let api_unary = [RichMap, RichFilterMap, RichFlatMap, Flatten, Inspect, MapMemo, MapMemoBy, UniqueAssoc, KeyedPipe, KeyedRich, KeyedShuffle, RepartBy, Stamp, StampShuffle, KeyedStamp, WinAllCount];
    let api_sinks = [SinkCount, SinkVecAll, SinkCollect, SinkCollectAll, SinkChan, SinkChanPar, SinkForEach];
    let mut api_progs: Vec<Program> = vec![];
    for x in &api_unary {
        api_progs.push(vec![x.clone()]);
        api_progs.push(vec![Shuffle, x.clone(), Map]);
        if tier == Tier::Thorough {
            api_progs.push(vec![x.clone(), GbSum]);
            api_progs.push(vec![ReplOne, x.clone()]);
        }
    }
    for k in &api_sinks {
        api_progs.push(vec![Map, k.clone()]);
        api_progs.push(vec![Shuffle, Filter, k.clone()]);
        api_progs.push(vec![Dup, Map, k.clone(), GbSum, Sink]);
    }
    api_progs.push(vec![Dup, Map, KeyedMerge]);
    api_progs.push(vec![Dup, Shuffle, Swap, Shuffle, KeyedMerge]);
    api_progs.push(vec![Replay(2, vec![KeyedPipe])]);
    api_progs.push(vec![Replay(2, vec![Shuffle, Flatten])]);
    api_progs.push(vec![Iterate(2, vec![RichFlatMap])]);
    api_progs.push(vec![Iterate(2, vec![KeyedRich])]);
    api_progs.push(vec![Replay(2, vec![StampShuffle])]);
    for (cfg, src) in &cfgs {
        for prog in api_progs.iter().filter(|p| well_formed(p, src.rep()).is_some()) {
            for input in [vec![1i64, 2, 3, 4, 5], vec![]] {
                if input.is_empty() && (tier == Tier::Quick && !prog.last().map(|i| i.is_sink()).unwrap_or(false)) {
                    continue;
                }
                let src = match src {
                    SrcKind::Par(a) => SrcKind::Par(a.iter().cycle().take(input.len()).copied().collect()),
                    s => s.clone(),
                };
                out.push(program_scenario("C01/api", prog, &input, src, cfg, bound, &ORDERS3[..if tier == Tier::Quick { 1 } else { 3 }], String::new()));
            }
        }
    }
    // the same on two hosts (sinks that hand their result to the caller of this host only on
    // local layouts: a channel / closure sink yields an empty result on the other hosts)
    {
        let cfg = JobCfg { layout: Layout::Remote(vec![1, 1]), batch: BatchMode::fixed(2), capacity: 0 };
        let src = SrcKind::Par(vec![0, 1, 0, 1, 1]);
        for prog in api_progs.iter().filter(|p| well_formed(p, src.rep()).is_some()) {
            if prog.iter().any(|i| matches!(i, SinkChan | SinkChanPar | SinkForEach)) {
                continue;
            }
            out.push(program_scenario("C01/api", prog, &[1, 2, 3, 4, 5], src.clone(), &cfg, if tier == Tier::Quick { 0 } else { 1 }, &ORDERS3[..1], String::new()));
        }
    }
    // inputs larger than a full batch (1024 elements) and than what the channels hold: batches
    // are cut by size, producers meet back-pressure, frames span many socket writes
    {
        let big: Vec<i64> = (0..2500).collect();
        let big_progs: Vec<Program> = vec![
            vec![Shuffle, Map],
            vec![GbSum],
            vec![FoldAssoc],
            vec![Dup, Map, Sink, Filter, Sink],
            vec![Dup, Shuffle, Swap, Merge],
            vec![BcastMax],
            vec![Replay(2, vec![Shuffle, Map])],
            vec![Iterate(2, vec![Shuffle, Filter])],
        ];
        let mut cfgs = vec![
            JobCfg { layout: Layout::Local(2), batch: BatchMode::fixed(1024), capacity: 0 },
            JobCfg { layout: Layout::Local(2), batch: BatchMode::adaptive(1024, std::time::Duration::from_millis(10)), capacity: 2 },
            JobCfg { layout: Layout::Remote(vec![1, 1]), batch: BatchMode::fixed(1024), capacity: 0 },
        ];
        if tier == Tier::Thorough {
            cfgs.push(JobCfg { layout: Layout::Local(3), batch: BatchMode::fixed(100), capacity: 1 });
        }
        for cfg in &cfgs {
            let cores = cfg.layout.total_cores() as usize;
            for prog in &big_progs {
                if cfg.layout.hosts() > 1 && prog.iter().any(|i| matches!(i, Replay(..) | Iterate(..))) && tier == Tier::Quick {
                    continue;
                }
                let mut sc = program_scenario("C01/big", prog, &big, SrcKind::Par((0..big.len()).map(|i| (i / 7) % cores).collect()), cfg, 0, &ORDERS3[..if tier == Tier::Quick { 1 } else { 3 }], String::new());
                sc.name = format!("C01/big/{}/in0..2500/{}", crate::program::show(prog), cfg.name());
                sc.descr = format!("program {} over the input 0..2500 spread over the source replicas, config {}", crate::program::show(prog), cfg.name());
                out.push(sc);
            }
        }
    }
    // quick tier: a diamond and a join template on two replicas one deviation deeper (loops cost
    // 100+ CPU seconds each at d <= 2: thorough tier only)
    if tier == Tier::Quick {
        deepen(&mut out, &|n| {
            n.ends_with("/par[0, 1, 0, 1]/local2-fixed1-cap0")
                && ["C01/Dup.Map.Swap.Shuffle.Merge/", "C01/Dup.Map.Join(0, 0, 0)/"].iter().any(|p| n.starts_with(p))
        });
    }
    // remote layouts, heterogeneous hosts
    let remote_progs: Vec<Program> = vec![
        vec![Map],
        vec![Shuffle, Map],
        vec![GbSum],
        vec![GbFoldAssoc],
        vec![FoldAssoc],
        vec![BcastMax],
        vec![ReplLim2, Map],
        vec![ReplHost, Map],
        vec![Dup, Map, Join(0, 0, 0)],
        vec![Replay(2, vec![Shuffle, Map])],
        vec![Iterate(2, vec![Shuffle, Filter])],
    ];
    let remote_layouts: Vec<Layout> = if tier == Tier::Quick {
        vec![Layout::Remote(vec![2, 1]), Layout::Remote(vec![1, 2])]
    } else {
        vec![Layout::Remote(vec![1, 1]), Layout::Remote(vec![2, 1]), Layout::Remote(vec![1, 2]), Layout::Remote(vec![1, 1, 1]), Layout::Remote(vec![3, 1])]
    };
    for layout in remote_layouts {
        let cores = layout.total_cores() as usize;
        let cfg = JobCfg { layout, batch: BatchMode::fixed(2), capacity: 0 };
        for prog in &remote_progs {
            out.push(program_scenario(
                "C01/remote",
                prog,
                &[1, 2, 3, 4, 5, 6, 7],
                SrcKind::Par((0..7).map(|i| i % cores).collect()),
                &cfg,
                if tier == Tier::Quick { 0 } else { 1 },
                &ORDERS3[..1],
                String::new(),
            ));
        }
    }
    out
}

pub fn spec() -> PropSpec {
    PropSpec {
        id: "C01",
        build,
        rule: "all well-typed programs up to the length bound over the instruction alphabet (map/filter/flat_map, shuffle, replication changes, keyed and global aggregations in one- and two-phase form, broadcast, split/merge, joins) plus loop/diamond/multi-sink templates x inputs x configurations (parallelism, batch mode, capacity, source partitioning); every schedule within the deviation bound; oracle = independent sequential interpreter, per-sink multiset equality; non-trivial = non-empty input",
        assumptions: &["deviation (delay) bound as reported; user functions are the fixed deterministic associative-commutative ones of the harness"],
        exhaustive_when_uncapped: false,
        budget_s: (50, 1500),
    }
}
