//! C04: every finite job terminates and every sink is completed exactly once.
use renoir::BatchMode;

use crate::driver::{PropSpec, Tier};
use crate::explore::Scenario;
use crate::kit::Layout;
use crate::program::Instr::*;
use crate::program::Program;
use crate::props::common::*;

fn library() -> Vec<(&'static str, Program)> {
    vec![
        ("chain", vec![Map, Shuffle, Filter]),
        ("groupby", vec![Shuffle, GbSum]),
        ("fold", vec![Shuffle, Fold]),
        ("fold-assoc", vec![FoldAssoc]),
        ("diamond", vec![Dup, Map, Shuffle, Swap, Shuffle, Merge]),
        ("diamond-fwd", vec![Dup, Map, Swap, Filter, Merge]),
        ("two-sinks", vec![Dup, Map, Sink, Filter, Sink]),
        ("join-hash", vec![Dup, Map, Join(0, 0, 0)]),
        ("join-bcast", vec![Dup, Shuffle, Join(1, 1, 0)]),
        ("join-outer-sm", vec![Dup, Filter, Join(2, 0, 1)]),
        ("replay", vec![Shuffle, Replay(2, vec![Map])]),
        ("replay-shuffle", vec![Shuffle, Replay(2, vec![Shuffle, Map])]),
        ("replay-groupby", vec![Shuffle, Replay(2, vec![GbSum])]),
        ("iterate", vec![Shuffle, Iterate(2, vec![Map])]),
        ("iterate-shuffle", vec![Shuffle, Iterate(2, vec![Shuffle, Filter])]),
        ("nested-replay", vec![Shuffle, Replay(2, vec![Shuffle, Replay(2, vec![Map])])]),
        ("repl-one", vec![ReplOne, Map, Shuffle]),
        ("iterate-expand", vec![Shuffle, Iterate(2, vec![FlatMap])]),
        ("replay-expand", vec![Shuffle, Replay(2, vec![FlatMap, Shuffle, FlatMap])]),
        ("bcast", vec![BcastMax]),
    ]
}

fn build(tier: Tier) -> Vec<Scenario> {
    let mut out = vec![];
    let lib = library();
    let (bound, inputs): (usize, Vec<Vec<i64>>) = match tier {
        Tier::Quick => (1, vec![vec![], vec![1, 2, 3]]),
        Tier::Thorough => (2, vec![vec![], vec![2], vec![1, 2, 3], vec![0, 1, 2, 3, 4, 5]]),
    };
    let cfgs: Vec<JobCfg> = match tier {
        Tier::Quick => vec![
            JobCfg { layout: Layout::Local(2), batch: BatchMode::fixed(2), capacity: 0 },
            // inputs larger than the total channel capacity: capacity 1, one element per batch
            JobCfg { layout: Layout::Local(2), batch: BatchMode::single(), capacity: 1 },
            // the timeout paths (idle flush, early and late timers) of the default kind of batching
            JobCfg { layout: Layout::Local(2), batch: BatchMode::adaptive(2, std::time::Duration::from_millis(10)), capacity: 2 },
        ],
        Tier::Thorough => vec![
            JobCfg { layout: Layout::Local(1), batch: BatchMode::single(), capacity: 1 },
            JobCfg { layout: Layout::Local(2), batch: BatchMode::fixed(2), capacity: 0 },
            JobCfg { layout: Layout::Local(2), batch: BatchMode::single(), capacity: 1 },
            JobCfg { layout: Layout::Local(3), batch: BatchMode::fixed(1), capacity: 2 },
            JobCfg { layout: Layout::Local(2), batch: BatchMode::adaptive(2, std::time::Duration::from_millis(10)), capacity: 2 },
            JobCfg { layout: Layout::Local(2), batch: BatchMode::adaptive(1024, std::time::Duration::from_millis(50)), capacity: 0 },
        ],
    };
    // a loop body that expands its input: the feedback edge fills up unless the loop head keeps
    // draining it (capacity 2, one element per batch, more elements than the edge can hold)
    let expand_cfgs = [
        JobCfg { layout: Layout::Local(1), batch: BatchMode::single(), capacity: 2 },
        JobCfg { layout: Layout::Local(2), batch: BatchMode::single(), capacity: 2 },
    ];
    for (name, prog) in lib.iter().filter(|(n, _)| n.ends_with("-expand")) {
        for cfg in &expand_cfgs {
            out.push(program_scenario(
                &format!("C04/{name}"),
                prog,
                &[2, 4, 6, 8, 10, 12],
                SrcKind::Iter,
                cfg,
                if tier == Tier::Quick { 0 } else { 1 },
                &ORDERS3,
                format!("{name}:"),
            ));
        }
    }
    for (name, prog) in &lib {
        assert!(
            crate::program::well_formed(prog, crate::program::Rep::One).is_some(),
            "library program {name} is not well formed"
        );
        for input in &inputs {
            for cfg in &cfgs {
                let mut s = program_scenario(
                    &format!("C04/{name}"),
                    prog,
                    input,
                    SrcKind::Iter,
                    cfg,
                    bound,
                    &ORDERS3,
                    // an element that expands into more batches than the feedback edge can hold
                    // is a different situation from a loop that stops draining the edge
                    if name.ends_with("-expand") && cfg.capacity == 1 {
                        format!("{name}-over-capacity:")
                    } else if name.starts_with("iterate") && cfg.capacity == 1 && input.len() >= 6 {
                        // so is a first pass of more single-element batches than the whole cycle
                        // head -> body -> feedback -> head can hold
                        format!("{name}-first-pass-over-capacity:")
                    } else {
                        format!("{name}:")
                    },
                );
                // the oracle of C04 is termination and single publication, not the content: keep
                // the content check (it is free) but it shares C01's known findings
                s.shards = if tier == Tier::Thorough { 4 } else { 1 };
                out.push(s);
            }
        }
    }
    // several hosts over the virtual TCP with socket buffers of one small frame (back-pressure on
    // the wire), partitioned source
    let remote_layouts: Vec<Layout> = if tier == Tier::Quick {
        vec![Layout::Remote(vec![1, 1])]
    } else {
        vec![Layout::Remote(vec![1, 1]), Layout::Remote(vec![2, 1]), Layout::Remote(vec![1, 1, 1])]
    };
    for layout in remote_layouts {
        let cores = layout.total_cores() as usize;
        let cfg = JobCfg { layout, batch: BatchMode::fixed(1), capacity: 1 };
        for (name, prog) in lib.iter().filter(|(n, _)| ["chain", "groupby", "diamond", "join-hash", "replay-shuffle", "iterate-shuffle", "nested-replay", "bcast", "two-sinks"].contains(n)) {
            let input: Vec<i64> = vec![1, 2, 3, 4];
            let mut s = program_scenario(
                &format!("C04/remote-{name}"),
                prog,
                &input,
                SrcKind::Par((0..input.len()).map(|i| i % cores).collect()),
                &cfg,
                if tier == Tier::Quick { 0 } else { 1 },
                &ORDERS3,
                format!("{name}:"),
            );
            s.params.pipe_capacity = 48;
            if tier == Tier::Thorough {
                s.params.short_io = true;
                s.shards = 4;
            }
            out.push(s);
        }
    }
    // fewer consumer replicas than producers on three uneven hosts: every connection of the
    // network layer must be established (a demultiplexer that stops accepting too early leaves a
    // host trying to connect for ever)
    for layout in [Layout::Remote(vec![2, 1, 1]), Layout::Remote(vec![1, 1, 2])] {
        let cores = layout.total_cores() as usize;
        let cfg = JobCfg { layout, batch: BatchMode::fixed(1), capacity: 1 };
        for (name, prog) in [("repl-lim2", vec![Map, ReplLim2, Shuffle]), ("repl-lim2-fold", vec![ReplLim2, GbSum])] {
            out.push(program_scenario(
                &format!("C04/remote-{name}"),
                &prog,
                &[1, 2, 3, 4, 5, 6, 7, 8],
                SrcKind::Par((0..8).map(|i| i % cores).collect()),
                &cfg,
                0,
                &ORDERS3[..if tier == Tier::Quick { 1 } else { 3 }],
                format!("{name}:"),
            ));
        }
    }
    if tier == Tier::Quick {
        deepen(&mut out, &|n| {
            n.ends_with("in[1, 2, 3]/iter/local2-fixed2-cap0")
                && ["C04/chain/", "C04/groupby/", "C04/join-hash/", "C04/two-sinks/"].iter().any(|p| n.starts_with(p))
        });
    }
    // unbounded exploration with sleep sets (every Mazurkiewicz trace) of the smallest jobs
    if tier == Tier::Thorough || std::env::var("NV_UNBOUNDED").is_ok() {
        for (name, prog, input) in [
            ("unbounded-map-1", vec![Map], vec![1i64]),
            ("unbounded-map-2", vec![Map, Filter], vec![1, 2]),
        ] {
            let cfg = JobCfg { layout: Layout::Local(1), batch: BatchMode::fixed(2), capacity: 0 };
            let mut s = program_scenario(&format!("C04/{name}"), &prog, &input, SrcKind::Iter, &cfg, 0, &ORDERS3[..1], format!("{name}:"));
            s.unbounded = true;
            s.max_execs = 400_000;
            out.push(s);
        }
    }
    out
}

pub fn spec() -> PropSpec {
    PropSpec {
        id: "C04",
        build,
        rule: "scenario = (job graph from a library of chains, diamonds, multi-sink graphs, joins, replay/iterate loops incl. nested) x input (incl. empty and larger than total channel capacity via capacity 1 + single-element batches) x configuration; every schedule within the deviation bound under three canonical orders is executed; non-trivial = non-empty input",
        assumptions: &["deviation (delay) bound as reported per scenario; schedules beyond it are not covered"],
        exhaustive_when_uncapped: false,
        budget_s: (50, 1500),
    }
}
