//! Jobs with slow sources and timed (adaptive) batching: elements trickle, links stay idle for
//! longer than the batch deadline, timers fire between two enqueues. Shared by C05 (grammar at
//! the block input behind the connection) and C06 (watermark safety there).
use std::collections::BTreeMap;
use std::sync::Arc;

use renoir::operator::StreamElement;
use renoir::prelude::*;
use renoir::{BatchMode, Replication};

use crate::explore::{hash_of, Check, Fail, Scenario};
use crate::kit::{probe, run_hosts, Layout, ScriptSource, K_FAR, K_TERM};
use crate::props::common::ORDERS3;
use crate::rt::{log, EnvParams, Ev, Status};

pub const PROBE: u32 = 60;

#[derive(Clone, Copy, Debug, PartialEq, Eq)]
pub enum Conn {
    Shuffle,
    GroupBy,
    Broadcast,
    /// route(): x % 3 == 0 -> branch 0, x % 3 == 1 -> branch 1, the rest is dropped
    Route,
    /// forward link into a single-replica block
    One,
    /// shuffle, then route(): the routing block has a block input of its own, whose timed
    /// receive expires while the source pauses
    ShuffleRoute,
}

/// One step of a replica's script: sleep (ms of virtual time), then the element.
pub type Step = (u64, StreamElement<i64>);

pub fn t(sleep: u64, v: i64, ts: i64) -> Step {
    (sleep, StreamElement::Timestamped(v, ts))
}
pub fn w(sleep: u64, ts: i64) -> Step {
    (sleep, StreamElement::Watermark(ts))
}
/// the pause before the end of the stream
pub fn end(sleep: u64) -> Step {
    (sleep, StreamElement::FlushAndRestart)
}

/// (probe id, replica) -> sequence of (kind, timestamp, payload) seen behind the block input.
pub type Seen = BTreeMap<(u32, (u64, u64, u64)), Vec<(u8, Option<i64>, Vec<i64>)>>;

pub fn seen(logv: &[Ev]) -> Seen {
    let mut m: Seen = BTreeMap::new();
    for e in logv {
        if let Ev::Probe(id, c, k, ts, pl) = e {
            if *id >= PROBE && *id < PROBE + 4 && *k != crate::kit::K_FB {
                m.entry((*id, *c)).or_default().push((*k, *ts, pl.clone()));
            }
        }
    }
    m
}

/// `oracle(seen, expected data values per probe id)`.
#[allow(clippy::too_many_arguments, clippy::type_complexity)]
pub fn timed_job(
    prefix: &str,
    scripts: Vec<Vec<Step>>,
    conn: Conn,
    layout: Layout,
    batch: BatchMode,
    bound: usize,
    sig: &'static str,
    oracle: Arc<dyn Fn(&Seen, &str) -> Result<(), Fail> + Send + Sync>,
) -> Scenario {
    let n = layout.total_cores() as usize;
    let shown: Vec<Vec<String>> = scripts
        .iter()
        .map(|s| s.iter().map(|(d, e)| format!("{}{}", if *d > 0 { format!("+{d}ms ") } else { String::new() }, match e {
            StreamElement::Timestamped(v, ts) => format!("T({v}@{ts})"),
            StreamElement::Watermark(ts) => format!("W({ts})"),
            StreamElement::FlushAndRestart => "end".to_string(),
            _ => "?".to_string(),
        })).collect())
        .collect();
    let bname = match batch {
        BatchMode::Adaptive(k, d) => format!("adaptive{}-{}ms", k, d.as_millis()),
        BatchMode::Fixed(k) => format!("fixed{k}"),
        BatchMode::Single => "single".to_string(),
    };
    let name = format!("{prefix}/timed/{:?}/{}/{bname}/{:?}", conn, layout.name(), shown).replace(' ', "");
    let descr = format!("slow timestamped source (per replica: pauses of virtual time, T(value@timestamp), W = watermark) {:?} -> {:?} -> probe behind the next block's input; layout {}, batch mode {bname}", shown, conn, layout.name());
    let sc2 = scripts.clone();
    let l2 = layout.clone();
    let body: crate::rt::Body = Arc::new(move || {
        let sc3 = sc2.clone();
        let res = run_hosts(
            &l2,
            Arc::new(move |_host, env| {
                let mut elems: Vec<Vec<StreamElement<i64>>> = vec![vec![]; n];
                let mut sleeps: Vec<Vec<u64>> = vec![vec![]; n];
                for (r, s) in sc3.iter().enumerate().take(n) {
                    for (d, e) in s {
                        elems[r].push(e.clone());
                        sleeps[r].push(*d);
                    }
                }
                let s = env.stream(ScriptSource::new(elems, Replication::Unlimited).sleeping(sleeps)).batch_mode(batch);
                match conn {
                    Conn::Shuffle => probe(s.shuffle(), PROBE).for_each(|_| {}),
                    Conn::GroupBy => probe(s.group_by(|x: &i64| x % 2).0, PROBE).for_each(|_| {}),
                    Conn::Broadcast => probe(s.broadcast(), PROBE).for_each(|_| {}),
                    Conn::One => probe(s.replication(Replication::One), PROBE).for_each(|_| {}),
                    Conn::ShuffleRoute => {
                        let mut v = s.shuffle().route().add_route(|x: &i64| x % 3 == 0).add_route(|x: &i64| x % 3 == 1).build().into_iter();
                        probe(v.next().unwrap(), PROBE).for_each(|_| {});
                        probe(v.next().unwrap(), PROBE + 1).for_each(|_| {});
                    }
                    Conn::Route => {
                        let mut v = s.route().add_route(|x: &i64| x % 3 == 0).add_route(|x: &i64| x % 3 == 1).build().into_iter();
                        probe(v.next().unwrap(), PROBE).for_each(|_| {});
                        probe(v.next().unwrap(), PROBE + 1).for_each(|_| {});
                    }
                }
                env.execute_blocking();
            }),
        );
        for (h, r) in res.into_iter().enumerate() {
            if let Some(p) = r {
                log(Ev::Text("host-panic", format!("{h}: {p}")));
            }
        }
    });
    let d2 = descr.clone();
    let check: Check = Arc::new(move |r| {
        if r.status != Status::Done {
            return Err(Fail::new(format!("{sig}-timed-abnormal"), format!("{d2}: {:?}", r.status)));
        }
        for e in &r.log {
            if let Ev::Text("host-panic", t) = e {
                return Err(Fail::new(format!("{sig}-timed-panic"), format!("{d2}: {t}")));
            }
        }
        let s = seen(&r.log);
        oracle(&s, &d2)?;
        Ok(hash_of(&s))
    });
    Scenario {
        name,
        descr,
        params: EnvParams { random_arity: n, ..Default::default() },
        body,
        check,
        bound,
        orders: ORDERS3.to_vec(),
        max_execs: 0,
        shards: 1,
        nontrivial: true,
        unbounded: false,
        loop_body: false,
        sometimes: vec![],
    }
}

/// The scripts used by both properties (2 source replicas; a third replica, if any, is silent).
pub fn scripts() -> Vec<Vec<Vec<Step>>> {
    vec![
        // a buffered element, a quiet period longer than the deadline, then a watermark / the end
        vec![vec![t(0, 1, 1), t(0, 3, 2), w(15, 2), t(0, 6, 5), w(15, 5), end(0)], vec![t(5, 4, 3), w(0, 3), t(30, 9, 6), w(0, 6), end(0)]],
        // quiet period right before the end of the stream
        vec![vec![t(0, 3, 1), t(0, 4, 1), end(25)], vec![t(0, 6, 2), t(0, 7, 4), w(0, 4), end(0)]],
        // trickle: gaps just above the deadline between single elements
        vec![vec![t(0, 1, 1), t(0, 3, 2), t(0, 4, 3), w(0, 3), t(12, 6, 4), w(12, 4), end(12)], vec![end(40)]],
    ]
}

/// Grammar with exactly one end of iteration (the jobs have no loop): data* FAR Terminate, per
/// probe and replica; and every data element of the script reaches exactly the probes it should.
pub fn grammar_oracle(conn: Conn, scripts: &[Vec<Step>], replicas: usize) -> Arc<dyn Fn(&Seen, &str) -> Result<(), Fail> + Send + Sync> {
    let values: Vec<i64> = scripts.iter().flat_map(|s| s.iter().filter_map(|(_, e)| if let StreamElement::Timestamped(v, _) = e { Some(*v) } else { None })).collect();
    Arc::new(move |seen, d| {
        for ((id, c), seq) in seen {
            let kinds: Vec<u8> = seq.iter().map(|x| x.0).collect();
            let n = kinds.len();
            let fars = kinds.iter().filter(|k| **k == K_FAR).count();
            let ok = n >= 2 && kinds[n - 1] == K_TERM && kinds[n - 2] == K_FAR && fars == 1 && kinds.iter().filter(|k| **k == K_TERM).count() == 1;
            if !ok {
                let what = if fars > 1 { "several-ends-of-iteration" } else if fars == 0 { "no-end-of-iteration" } else { "data-after-end-of-iteration" };
                return Err(Fail::new(
                    format!("c05-timed-grammar-{what}"),
                    format!("{d}: probe {id} on replica {:?} saw kinds {:?} (0 item, 1 timestamped, 2 watermark, 4 terminate, 5 end of iteration); a job without loops has data* end-of-iteration terminate", c, kinds),
                ));
            }
        }
        // conservation per probe id
        let want = |id: u32| -> Vec<i64> {
            let mut v: Vec<i64> = match conn {
                Conn::Route | Conn::ShuffleRoute => values.iter().copied().filter(|x| x.rem_euclid(3) == (id - PROBE) as i64).collect(),
                Conn::Broadcast => values.iter().flat_map(|x| std::iter::repeat(*x).take(replicas)).collect(),
                _ => values.clone(),
            };
            v.sort();
            v
        };
        let ids: Vec<u32> = if matches!(conn, Conn::Route | Conn::ShuffleRoute) { vec![PROBE, PROBE + 1] } else { vec![PROBE] };
        for id in ids {
            let mut got: Vec<i64> = seen.iter().filter(|((i, _), _)| *i == id).flat_map(|(_, s)| s.iter().filter(|x| x.0 <= 1).map(|x| *x.2.last().unwrap())).collect();
            got.sort();
            if got != want(id) {
                return Err(Fail::new("c05-timed-data", format!("{d}: probe {id} saw data {:?}, expected {:?}", got, want(id))));
            }
        }
        Ok(())
    })
}

/// Control elements reach every replica of the connected block (C03) and the watermark keeps
/// progressing there (C17): every downstream replica sees one end of iteration and one Terminate,
/// and - when every source replica emits watermarks - the last watermark it sees before the end
/// is at least the minimum over the source replicas of their last watermark.
pub fn markers_oracle(sig: &'static str, scripts: &[Vec<Step>], replicas: usize, probes: usize) -> Arc<dyn Fn(&Seen, &str) -> Result<(), Fail> + Send + Sync> {
    let lasts: Vec<Option<i64>> = (0..replicas)
        .map(|r| scripts.get(r).and_then(|s| s.iter().filter_map(|(_, e)| if let StreamElement::Watermark(w) = e { Some(*w) } else { None }).last()))
        .collect();
    let expected: Option<i64> = if lasts.iter().all(|x| x.is_some()) { lasts.iter().map(|x| x.unwrap()).min() } else { None };
    Arc::new(move |seen, d| {
        let mut per_probe: BTreeMap<u32, usize> = BTreeMap::new();
        for ((id, c), seq) in seen {
            *per_probe.entry(*id).or_insert(0) += 1;
            let fars = seq.iter().filter(|x| x.0 == K_FAR).count();
            let terms = seq.iter().filter(|x| x.0 == K_TERM).count();
            if fars != 1 || terms != 1 {
                return Err(Fail::new(format!("{sig}-timed-markers"), format!("{d}: probe {id} on replica {:?} saw {fars} ends of iteration and {terms} Terminate", c)));
            }
            if let Some(exp) = expected {
                let last = seq.iter().filter(|x| x.0 == crate::kit::K_WM).map(|x| x.1.unwrap()).last();
                // (at least: once a source replica has ended, the minimum is taken over the others)
                if !last.map(|l| l >= exp).unwrap_or(false) {
                    return Err(Fail::new(
                        format!("{sig}-timed-watermark-missing"),
                        format!("{d}: probe {id} on replica {:?}: the last watermark seen before the end of the stream is {:?}, but every source replica got as far as {exp} (the minimum of their last watermarks); watermarks seen {:?}", c, last, seq.iter().filter(|x| x.0 == crate::kit::K_WM).map(|x| x.1.unwrap()).collect::<Vec<_>>()),
                    ));
                }
            }
        }
        for (id, n) in per_probe {
            if n != probes {
                return Err(Fail::new(format!("{sig}-timed-replicas"), format!("{d}: probe {id} was reached on {n} replicas, {probes} expected")));
            }
        }
        Ok(())
    })
}

/// Watermark safety behind the block input, per replica.
pub fn safety_oracle() -> Arc<dyn Fn(&Seen, &str) -> Result<(), Fail> + Send + Sync> {
    Arc::new(|seen, d| {
        for ((id, c), seq) in seen {
            let sh: Vec<(u8, Option<i64>)> = seq.iter().map(|x| (x.0, x.1)).collect();
            if let Some((sig, msg)) = crate::e2::watermark_safety(&sh) {
                return Err(Fail::new(format!("c06-timed-{sig}"), format!("{d}: probe {id} on replica {:?}: {msg}; (kind, timestamp) sequence {:?}", c, sh)));
            }
        }
        Ok(())
    })
}

pub fn scenarios(prefix: &str, quick: bool, which: &str) -> Vec<Scenario> {
    let mut out = vec![];
    let ms = std::time::Duration::from_millis(10);
    let layouts: Vec<(Layout, usize)> = if quick { vec![(Layout::Local(2), 1)] } else { vec![(Layout::Local(2), 2), (Layout::Local(3), 1), (Layout::Remote(vec![1, 1]), 1)] };
    for (layout, bound) in layouts {
        for sc in scripts() {
            for conn in [Conn::Shuffle, Conn::GroupBy, Conn::Broadcast, Conn::Route, Conn::One, Conn::ShuffleRoute] {
                for batch in [BatchMode::adaptive(1024, ms), BatchMode::adaptive(2, ms)] {
                    if quick && batch == BatchMode::adaptive(2, ms) && !matches!(conn, Conn::GroupBy | Conn::Route) {
                        continue;
                    }
                    let n = layout.total_cores() as usize;
                    let down = if conn == Conn::One { 1 } else { n };
                    let (sig, oracle): (&'static str, _) = match which {
                        "C05" => ("c05", grammar_oracle(conn, &sc, n)),
                        "C06" => ("c06", safety_oracle()),
                        "C03" => ("c03", markers_oracle("c03", &sc, n, down)),
                        _ => ("c17", markers_oracle("c17", &sc, n, down)),
                    };
                    out.push(timed_job(prefix, sc.clone(), conn, layout.clone(), batch, bound, sig, oracle));
                }
            }
        }
    }
    out
}
