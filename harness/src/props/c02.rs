//! C02: every link delivers each element exactly once, in sending order, unaltered, to the
//! endpoint it was sent to.
use std::collections::BTreeMap;
use std::sync::Arc;

use renoir::verif::observe::{Elem, Event};
use renoir::BatchMode;

use crate::driver::{PropSpec, Tier};
use crate::explore::{hash_of, Check, Fail, Scenario};
use crate::kit::Layout;
use crate::program::Instr::*;
use crate::program::Program;
use crate::props::common::*;
use crate::rt::{Ev, ExecResult, Status};

type Link = ((u64, u64, u64), (u64, u64, u64), u64); // (from, to, prev block of the endpoint)

/// The link monitor: at every instant the elements received on a link are a prefix of the
/// elements sent on it; at the end they are equal.
pub fn link_monitor(r: &ExecResult) -> Result<(usize, usize), Fail> {
    let mut sent: BTreeMap<Link, Vec<Elem>> = BTreeMap::new();
    let mut recv: BTreeMap<Link, usize> = BTreeMap::new();
    let mut n_batches = 0;
    for e in &r.log {
        match e {
            Ev::Repo(Event::Sent { from, to, prev_block, elems }) => {
                if from.0 != *prev_block {
                    return Err(Fail::new(
                        "c02-wrong-sender",
                        format!("batch sent by {:?} on an endpoint of previous block {}", from, prev_block),
                    ));
                }
                sent.entry((*from, *to, *prev_block)).or_default().extend(elems.iter().cloned());
            }
            Ev::Repo(Event::Received { at, prev_block, from, elems }) => {
                n_batches += 1;
                // FlushBatch batches synthesised by Start on a timeout never crossed a link
                let link = (*from, *at, *prev_block);
                let s = sent.get(&link).map(|v| v.as_slice()).unwrap_or(&[]);
                let pos = recv.entry(link).or_insert(0);
                for el in elems {
                    match s.get(*pos) {
                        Some(x) if x == el => *pos += 1,
                        Some(x) => {
                            // classify
                            let later = s[*pos..].iter().any(|y| y == el);
                            let earlier = s[..*pos].iter().any(|y| y == el);
                            let sig = if later {
                                "c02-reordered-or-lost"
                            } else if earlier {
                                "c02-duplicated"
                            } else {
                                "c02-altered-or-misrouted"
                            };
                            return Err(Fail::new(
                                sig,
                                format!(
                                    "link {:?} -> {:?} (endpoint of block {}): received element #{} {:?} but element #{} sent was {:?}",
                                    from, at, prev_block, pos, el, pos, x
                                ),
                            ));
                        }
                        None => {
                            let earlier = s.iter().any(|y| y == el);
                            return Err(Fail::new(
                                if earlier { "c02-duplicated" } else { "c02-altered-or-misrouted" },
                                format!(
                                    "link {:?} -> {:?} (endpoint of block {}): received {:?} which was never sent on this link (only {} elements were)",
                                    from, at, prev_block, el, s.len()
                                ),
                            ));
                        }
                    }
                }
            }
            _ => {}
        }
    }
    if r.status == Status::Done {
        for (link, s) in &sent {
            let got = recv.get(link).copied().unwrap_or(0);
            if got != s.len() {
                return Err(Fail::new(
                    "c02-lost",
                    format!(
                        "link {:?} -> {:?} (endpoint of block {}): {} elements sent, {} received; first missing {:?}",
                        link.0, link.1, link.2, s.len(), got, s.get(got)
                    ),
                ));
            }
        }
    }
    Ok((sent.len(), n_batches))
}

fn library() -> Vec<(&'static str, Program)> {
    vec![
        ("shuffle", vec![Shuffle, Map]),
        ("groupby", vec![GbSum]),
        ("two-downstream", vec![Dup, Shuffle, Sink, GbSum, Sink]),
        ("bcast", vec![BcastMax]),
        ("join", vec![Dup, Map, Join(0, 0, 0)]),
        ("replay", vec![Replay(2, vec![Shuffle, Map])]),
        ("iterate", vec![Iterate(2, vec![Shuffle, Filter])]),
        ("fold-assoc", vec![FoldAssoc]),
    ]
}

fn build(tier: Tier) -> Vec<Scenario> {
    let mut out = vec![];
    let cfgs: Vec<(JobCfg, usize, bool)> = match tier {
        // (config, bound, short io)
        Tier::Quick => vec![
            (JobCfg { layout: Layout::Local(2), batch: BatchMode::fixed(2), capacity: 0 }, 1, false),
            (JobCfg { layout: Layout::Local(3), batch: BatchMode::single(), capacity: 1 }, 1, false),
            (JobCfg { layout: Layout::Remote(vec![1, 1]), batch: BatchMode::fixed(2), capacity: 0 }, 1, true),
            (JobCfg { layout: Layout::Remote(vec![2, 1]), batch: BatchMode::fixed(1), capacity: 0 }, 0, false),
        ],
        Tier::Thorough => vec![
            (JobCfg { layout: Layout::Local(2), batch: BatchMode::fixed(2), capacity: 0 }, 2, false),
            (JobCfg { layout: Layout::Local(3), batch: BatchMode::single(), capacity: 1 }, 2, false),
            (JobCfg { layout: Layout::Local(2), batch: BatchMode::adaptive(2, std::time::Duration::from_millis(10)), capacity: 2 }, 2, false),
            (JobCfg { layout: Layout::Remote(vec![1, 1]), batch: BatchMode::fixed(2), capacity: 0 }, 2, true),
            (JobCfg { layout: Layout::Remote(vec![2, 1]), batch: BatchMode::fixed(1), capacity: 0 }, 1, true),
            (JobCfg { layout: Layout::Remote(vec![1, 2]), batch: BatchMode::single(), capacity: 1 }, 1, false),
        ],
    };
    let input: Vec<i64> = vec![1, 2, 3, 4, 5];
    for (name, prog) in library() {
        for (cfg, bound, short_io) in &cfgs {
            let cores = cfg.layout.total_cores() as usize;
            let assign: Vec<usize> = (0..input.len()).map(|i| i % cores).collect();
            let mut s = program_scenario(
                &format!("C02/{name}"),
                &prog,
                &input,
                SrcKind::Par(assign),
                cfg,
                *bound,
                &ORDERS3[..if tier == Tier::Quick { 1 } else { 3 }],
                String::new(),
            );
            s.params.observe_links = true;
            s.params.short_io = *short_io;
            s.params.pipe_capacity = if *short_io { 64 } else { 0 };
            let inner = s.check.clone();
            let check: Check = Arc::new(move |r| {
                link_monitor(r)?;
                // the job must also complete with the right result (a loss compensated by a
                // duplicate would be caught above; this catches a stuck or crashed transport)
                inner(r).map(|_| {
                    let links: Vec<&Ev> = r.log.iter().filter(|e| matches!(e, Ev::Repo(_))).collect();
                    hash_of(&links)
                })
            });
            s.check = check;
            if tier == Tier::Thorough {
                s.shards = 4;
            }
            out.push(s);
        }
    }
    // frames of very different sizes on one multiplexed connection: payloads of a few bytes
    // alternate with payloads larger than any staging buffer (9000 and 20000 bytes), one element
    // per batch, tiny socket buffers so that the multiplexer's queue fills up
    for (layout, sizes) in [
        (Layout::Remote(vec![1, 1]), vec![1usize, 1, 1, 9000, 1, 1, 1, 20000, 1, 1]),
        (Layout::Remote(vec![1, 1]), vec![9000, 1, 1, 1, 9000, 9000, 1, 1]),
        (Layout::Remote(vec![2, 1]), vec![1, 1, 1, 1, 9000, 1, 1, 9000, 1, 1, 1, 1]),
    ] {
        out.push(mixed_frames_scenario(layout, sizes, if tier == Tier::Quick { 1 } else { 2 }));
    }
    out.extend(super::c02_e2::scenarios(tier));
    out
}

fn mixed_frames_scenario(layout: Layout, sizes: Vec<usize>, bound: usize) -> Scenario {
    use renoir::operator::StreamElement;
    use renoir::prelude::*;
    let name = format!("C02/mixed-frame-sizes/{}/{:?}", layout.name(), sizes).replace(' ', "");
    let descr = format!("source replica 0 emits byte vectors of lengths {:?}, one per batch, through a shuffle on layout {} with 64-byte socket buffers", sizes, layout.name());
    let (l2, s2) = (layout.clone(), sizes.clone());
    let body: crate::rt::Body = Arc::new(move || {
        let sizes = s2.clone();
        let res = crate::kit::run_hosts(
            &l2,
            Arc::new(move |_host, env| {
                let script: Vec<StreamElement<Vec<u8>>> = sizes.iter().enumerate().map(|(i, n)| StreamElement::Item(vec![i as u8; *n])).collect();
                env.stream(crate::kit::ScriptSource::new(vec![script], renoir::Replication::Unlimited))
                    .batch_mode(BatchMode::single())
                    .shuffle()
                    .for_each(|_| {});
                env.execute_blocking();
            }),
        );
        for (h, r) in res.into_iter().enumerate() {
            if let Some(p) = r {
                crate::rt::log(Ev::Text("host-panic", format!("{h}: {p}")));
            }
        }
    });
    let d2 = descr.clone();
    let check: Check = Arc::new(move |r| {
        link_monitor(r).map_err(|f| Fail::new(f.sig.clone(), format!("{d2}: {}", f.msg.chars().take(600).collect::<String>())))?;
        if r.status != Status::Done {
            return Err(Fail::new("c02-mixed-abnormal", format!("{d2}: {:?}", r.status)));
        }
        if let Some(Ev::Text(_, t)) = r.log.iter().find(|e| matches!(e, Ev::Text("host-panic", _))) {
            return Err(Fail::new("c02-mixed-panic", format!("{d2}: {t}")));
        }
        Ok(hash_of(&r.trace.len()))
    });
    let mut params = env_params(&JobCfg { layout, batch: BatchMode::single(), capacity: 0 });
    params.observe_links = true;
    params.pipe_capacity = 64;
    Scenario {
        name,
        descr,
        params,
        body,
        check,
        bound,
        orders: ORDERS3.to_vec(),
        max_execs: 0,
        shards: 1,
        nontrivial: true,
        unbounded: false,
        loop_body: false,
        sometimes: vec![],
    }
}

pub fn spec() -> PropSpec {
    PropSpec {
        id: "C02",
        build,
        rule: "jobs with all-to-all, keyed, broadcast, two-downstream-block, join and loop-feedback links on local (2-3 replicas, capacity 1 or 16) and remote layouts (1+1, 2+1, 1+2 cores; two local replicas share one multiplexed connection; short reads/writes and 64-byte socket buffers as deviations): in every schedule within the bound the observer hook in NetworkSender::send / NetworkReceiver::recv* sees, per (producer replica, endpoint), the received elements as a prefix of the sent ones at every instant and equal at the end (bincode bytes, order, endpoint, sender); frames of a few bytes alternating with frames of 9000 / 20000 bytes on one multiplexed connection; plus exhaustive Batcher operation sequences and every segmentation of framed messages through remote_send/remote_recv; non-trivial = non-empty input",
        assumptions: &["deviation bound as reported", "TCP is modelled as a reliable byte stream with arbitrary segmentation"],
        exhaustive_when_uncapped: false,
        budget_s: (50, 1200),
    }
}
