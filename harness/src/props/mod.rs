//! One module per property: each builds its scenario list for a tier.
use crate::driver::PropSpec;

pub mod c01;
pub mod c02;
pub mod c02_e2;
pub mod c03;
pub mod c04;
pub mod c05;
pub mod c06;
pub mod c07;
pub mod c08;
pub mod c08_jobs;
pub mod c09;
pub mod c10;
pub mod c11;
pub mod c12;
pub mod c13;
pub mod c14;
pub mod c15;
pub mod c16;
pub mod c17;
pub mod c18;
pub mod c19;
pub mod c20;
pub mod common;
pub mod start_e2;
pub mod timed;

pub fn all() -> Vec<PropSpec> {
    vec![c01::spec(), c02::spec(), c03::spec(), c04::spec(), c05::spec(), c06::spec(), c07::spec(), c08::spec(), c09::spec(), c10::spec(), c11::spec(), c12::spec(), c13::spec(), c14::spec(), c15::spec(), c16::spec(), c17::spec(), c18::spec(), c19::spec(), c20::spec()]
}
