//! C16: sequential paths preserve order; reorder() sorts by timestamp without loss.
use std::sync::Arc;
use std::time::Duration;

use renoir::operator::StreamElement;
use renoir::prelude::*;
use renoir::{BatchMode, Replication};

use crate::driver::{PropSpec, Tier};
use crate::e2::{counted_stream, drive_aligned, loop_scenario, El, FailSet};
use crate::explore::{hash_of, Check, Fail, Scenario};
use crate::kit::{erase, Layout, DS};
use crate::props::c13::{histories, Sym};
use crate::props::common::ORDERS3;
use crate::rt::{log, EnvParams, Ev, Status};

#[derive(Clone, Copy, Debug, PartialEq)]
enum Stage {
    Map,
    Filter,
    FlatMap,
    /// a block boundary between two single-replica blocks
    Hop,
}

fn f_map(x: i64) -> i64 {
    x * 3 + 1
}
fn f_filter(x: &i64) -> bool {
    x % 4 != 1
}
fn f_flat(x: i64) -> Vec<i64> {
    vec![x, x + 100]
}

fn chain_scenario(stages: Vec<Stage>, n: usize, batch: BatchMode, cap: usize, p: u64, bound: usize) -> Scenario {
    let name = format!("C16/chain/{:?}/n{n}/{:?}/cap{cap}/p{p}", stages, batch).replace(' ', "");
    let descr = format!("single-replica chain {:?} over 0..{n}, batch mode {:?}, channel capacity {}, {p} cores available", stages, batch, if cap == 0 { 16 } else { cap });
    let st = stages.clone();
    let body: crate::rt::Body = Arc::new(move || {
        let env = Layout::Local(p).env(0);
        let mut s: DS<i64> = erase(env.stream_iter(0..n as i64).batch_mode(batch));
        for x in &st {
            s = match x {
                Stage::Map => erase(s.map(f_map)),
                Stage::Filter => erase(s.filter(f_filter)),
                Stage::FlatMap => erase(s.flat_map(f_flat)),
                Stage::Hop => erase(s.replication(Replication::One)),
            };
        }
        let out = s.collect_vec();
        env.execute_blocking();
        match out.get() {
            Some(v) => log(Ev::Note("seq", v)),
            None => log(Ev::Note("seq-missing", vec![])),
        }
    });
    let mut exp: Vec<i64> = (0..n as i64).collect();
    for x in &stages {
        exp = match x {
            Stage::Map => exp.into_iter().map(f_map).collect(),
            Stage::Filter => exp.into_iter().filter(f_filter).collect(),
            Stage::FlatMap => exp.into_iter().flat_map(f_flat).collect(),
            Stage::Hop => exp,
        };
    }
    let d2 = descr.clone();
    let check: Check = Arc::new(move |r| {
        if r.status != Status::Done {
            return Err(Fail::new("c16-chain-abnormal", format!("{d2}: {:?}", r.status)));
        }
        for e in &r.log {
            if let Ev::Note("seq", v) = e {
                if *v != exp {
                    let mut a = v.clone();
                    let mut b = exp.clone();
                    a.sort();
                    b.sort();
                    let sig = if a == b { "c16-chain-reordered" } else { "c16-chain-content" };
                    let first = v.iter().zip(exp.iter()).position(|(x, y)| x != y);
                    return Err(Fail::new(
                        sig,
                        if exp.len() > 40 {
                            format!("{d2}: sink holds {} elements, the iterator chain gives {}; they first differ at position {:?}", v.len(), exp.len(), first)
                        } else {
                            format!("{d2}: sink holds {:?}, the iterator chain gives {:?}", v, exp)
                        },
                    ));
                }
                return Ok(hash_of(&r.trace.len()));
            }
        }
        Err(Fail::new("c16-chain-no-result", format!("{d2}: no result")))
    });
    Scenario {
        name,
        descr,
        params: EnvParams { channel_capacity: cap, ..Default::default() },
        body,
        check,
        bound,
        orders: ORDERS3.to_vec(),
        max_execs: 0,
        shards: 1,
        nontrivial: n >= 2,
        unbounded: false,
        loop_body: false,
        sometimes: vec![],
    }
}

fn check_reorder(h: &[Sym]) -> Option<Fail> {
    let script: Vec<El<(i64, i64)>> = h
        .iter()
        .enumerate()
        .map(|(i, s)| match s {
            Sym::T(k, t) => StreamElement::Timestamped((*k, i as i64), *t),
            Sym::W(w) => StreamElement::Watermark(*w),
            Sym::Far => StreamElement::FlushAndRestart,
        })
        .collect();
    let (s, counter) = counted_stream(script);
    let out = drive_aligned(s.reorder().verif_into_chain().chain, &counter);
    let descr = || format!("reorder history {:?}", h);
    let mut last: Option<i64> = None;
    let mut seen: Vec<usize> = vec![];
    for (consumed, e) in &out {
        match e {
            StreamElement::Timestamped((_, id), t) => {
                if last.map(|l| *t < l).unwrap_or(false) {
                    return Some(Fail::new("c16-reorder-not-sorted", format!("{}: timestamp {t} after {}", descr(), last.unwrap())));
                }
                last = Some(*t);
                seen.push(*id as usize);
                // released only once a watermark >= its timestamp, or the end of the iteration, was read
                let upto = (*consumed).min(h.len());
                let it_start = h[..*id as usize].iter().rposition(|s| *s == Sym::Far).map(|p| p + 1).unwrap_or(0);
                let covered = h[it_start..upto].iter().any(|s| matches!(s, Sym::W(w) if *w >= *t) || *s == Sym::Far) || *consumed > h.len();
                if !covered {
                    return Some(Fail::new("c16-reorder-released-early", format!("{}: element #{id} (ts {t}) released after reading {} inputs, before any watermark >= {t}", descr(), consumed)));
                }
            }
            StreamElement::FlushAndRestart => last = None,
            _ => {}
        }
    }
    let mut exp: Vec<usize> = h.iter().enumerate().filter(|(_, s)| matches!(s, Sym::T(..))).map(|(i, _)| i).collect();
    seen.sort();
    exp.sort();
    if seen != exp {
        return Some(Fail::new(if seen.len() < exp.len() { "c16-reorder-lost" } else { "c16-reorder-duplicated" }, format!("{}: elements out {:?}, in {:?}", descr(), seen, exp)));
    }
    None
}

fn build(tier: Tier) -> Vec<Scenario> {
    use Stage::*;
    let mut out = vec![];
    let chains: Vec<Vec<Stage>> = vec![
        vec![Map],
        vec![Hop, Map],
        vec![Map, Hop, Filter],
        vec![FlatMap, Hop, Map, Hop, Filter],
        vec![Hop, FlatMap, Hop, FlatMap, Hop, Map],
        vec![Filter, Hop, Hop, Map],
    ];
    let modes: Vec<BatchMode> = vec![
        BatchMode::single(),
        BatchMode::fixed(1),
        BatchMode::fixed(2),
        BatchMode::fixed(1024),
        BatchMode::adaptive(2, Duration::from_millis(10)),
        BatchMode::adaptive(1024, Duration::from_millis(10)),
    ];
    let bound = if tier == Tier::Quick { 1 } else { 2 };
    for c in &chains {
        for m in &modes {
            for cap in [0usize, 1] {
                for n in if tier == Tier::Quick { vec![0usize, 5] } else { vec![0, 1, 3, 6] } {
                    out.push(chain_scenario(c.clone(), n, *m, cap, 2, bound));
                }
            }
        }
    }
    // more elements than a full batch (1024) and than the channels hold: order across batch
    // boundaries and under back-pressure
    for c in [vec![Map, Hop, Filter], vec![Hop, FlatMap, Hop, Map]] {
        for (m, cap) in [(BatchMode::fixed(1024), 0usize), (BatchMode::adaptive(1024, Duration::from_millis(10)), 1), (BatchMode::fixed(100), 1)] {
            out.push(chain_scenario(c.clone(), 2500, m, cap, 2, 0));
        }
    }
    let len = if tier == Tier::Quick { 6 } else { 7 };
    for part in 0..4i64 {
        out.push(loop_scenario(
            format!("C16/reorder/len{len}/part{part}"),
            format!("all contract-respecting timestamped histories (duplicates, out-of-order within the watermark bound, iteration ends) of length <= {len} whose first timestamp is {part} through reorder()"),
            Arc::new(move || {
                let mut cases = 0;
                let mut nontrivial = 0;
                let mut fails = FailSet::default();
                histories(1, 3, len, &mut |h| {
                    if fails.full() {
                        return;
                    }
                    match h.first() {
                        Some(Sym::T(_, t)) if *t == part => {}
                        Some(Sym::W(w)) if *w == part => {}
                        None | Some(Sym::Far) if part == 0 => {}
                        _ => return,
                    }
                    cases += 1;
                    let ts: Vec<i64> = h.iter().filter_map(|s| if let Sym::T(_, t) = s { Some(*t) } else { None }).collect();
                    if ts.windows(2).any(|w| w[1] < w[0]) {
                        nontrivial += 1;
                    }
                    fails.add(check_reorder(h));
                });
                (cases, nontrivial, fails.first())
            }),
        ));
    }
    if tier == Tier::Quick {
        crate::props::common::deepen(&mut out, &|n| n.contains("/[Map,Hop,Filter]/n5/") || n.contains("/[Hop,FlatMap,Hop,FlatMap,Hop,Map]/n5/Adaptive"));
    }
    out
}

pub fn spec() -> PropSpec {
    PropSpec {
        id: "C16",
        build,
        rule: "(1) chains of 1-4 single-replica blocks (maps, filters, flat_maps separated by replication(One) boundaries) for six batch modes (single, fixed 1/2/1024, adaptive 2/1024 with virtual timers), channel capacity 16 and 1, inputs of 0..6 elements (and of 2500 elements for two chains under fixed 1024 / adaptive 1024 / fixed 100 with capacity 1): in every schedule within the deviation bound (three canonical orders, early timer firings as deviations) the sink's vector equals the iterator chain, in order; (2) reorder(): all contract-respecting timestamped histories up to the length bound: output timestamps non-decreasing, multiset preserved, an element released only after a watermark >= its timestamp or the end of its iteration; non-trivial = at least 2 elements / out-of-order history",
        assumptions: &["Replication::One places both blocks on host 0, so the cross-host order guarantee is C02's per-link FIFO", "deviation bound as reported"],
        exhaustive_when_uncapped: false,
        budget_s: (50, 1500),
    }
}
