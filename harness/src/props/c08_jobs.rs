//! C08, job level: joins inside real jobs under schedule exploration; interval joins.
use std::sync::Arc;

use renoir::operator::StreamElement;
use renoir::prelude::*;
use renoir::{BatchMode, Replication};

use crate::driver::Tier;
use crate::explore::{hash_of, Check, Fail, Scenario};
use crate::kit::{log_sink, sink_rows, Layout, ScriptSource};
use crate::props::common::ORDERS3;
use crate::rt::{EnvParams, Ev, Kind, Status};

pub fn interval_case(prefix: &str, l: Vec<i64>, r: Vec<i64>, lower: i64, upper: i64, bound: usize, keyed: bool) -> Scenario {
    // left/right: timestamps (ids = index), single key; contract: sources emit in timestamp order
    // with a watermark after every element
    let mut exp: Vec<Vec<i64>> = vec![];
    for (i, a) in l.iter().enumerate() {
        for (j, b) in r.iter().enumerate() {
            if a - lower <= *b && *b <= a + upper && (!keyed || i % 2 == j % 2) {
                exp.push(vec![i as i64, 100 + j as i64]);
            }
        }
    }
    exp.sort();
    let (l2, r2) = (l.clone(), r.clone());
    let body: crate::rt::Body = Arc::new(move || {
        let env = Layout::Local(2).env(0);
        let mk = |v: &Vec<i64>, base: i64| {
            let mut s = vec![];
            for (i, t) in v.iter().enumerate() {
                s.push(StreamElement::Timestamped(base + i as i64, *t));
                s.push(StreamElement::Watermark(*t));
            }
            ScriptSource::new(vec![s], Replication::One)
        };
        let a = env.stream(mk(&l2, 0)).batch_mode(BatchMode::fixed(1));
        let b = env.stream(mk(&r2, 100)).batch_mode(BatchMode::fixed(1));
        let out = if keyed {
            crate::kit::probe(a.key_by(|x: &i64| x % 2).interval_join(b.key_by(|x: &i64| x % 2), lower, upper).drop_key(), 8).collect_vec()
        } else {
            crate::kit::probe(a.interval_join(b, lower, upper), 8).collect_vec()
        };
        env.execute_blocking();
        log_sink("sink0", 0, out.get());
    });
    let descr = format!("interval join (keyed by id % 2: {keyed}) lower={lower} upper={upper} left timestamps {:?} right timestamps {:?}", l, r);
    let d2 = descr.clone();
    let check: Check = Arc::new(move |r| {
        match &r.status {
            Status::Done => {}
            other => return Err(Fail::new("c08-interval-abnormal", format!("{d2}: {:?}", other))),
        }
        // right behind the join: pairs, one end of iteration, terminate
        let kinds: Vec<u8> = r.log.iter().filter_map(|e| if let Ev::Probe(8, _, k, _, _) = e { if *k != crate::kit::K_FB && *k != crate::kit::K_WM { Some(*k) } else { None } } else { None }).collect();
        let nk = kinds.len();
        if !(nk >= 2 && kinds[nk - 1] == crate::kit::K_TERM && kinds[nk - 2] == crate::kit::K_FAR && kinds.iter().filter(|k| **k == crate::kit::K_FAR).count() == 1) {
            return Err(Fail::new("c08-interval-markers", format!("{d2}: behind the join the element kinds are {:?} (1 pair, 4 terminate, 5 end of iteration): expected pairs, one end of iteration, terminate", kinds)));
        }
        // and the output respects the watermark contract (C06): no pair at or below a watermark
        // the join has already forwarded
        let sh: Vec<(u8, Option<i64>)> = r.log.iter().filter_map(|e| if let Ev::Probe(8, _, k, ts, _) = e { Some((*k, *ts)) } else { None }).filter(|(k, _)| *k != crate::kit::K_FB).collect();
        if let Some((sig, msg)) = crate::e2::watermark_safety(&sh) {
            return Err(Fail::new(format!("c06-interval-join-{sig}"), format!("{d2}: {msg}; (kind, timestamp) behind the join {:?}", sh)));
        }
        let (n, rows) = sink_rows(&r.log, "sink0");
        if n != 1 {
            return Err(Fail::new("c08-interval-no-result", format!("{d2}: sink published {n} times")));
        }
        let got = rows.unwrap();
        if got != exp {
            return Err(Fail::new(
                if got.len() < exp.len() { "c08-interval-missing" } else if got.len() > exp.len() { "c08-interval-extra" } else { "c08-interval-wrong" },
                format!("{d2}: got pairs {:?}, expected {:?}", got, exp),
            ));
        }
        Ok(hash_of(&r.log.iter().filter(|e| matches!(e, Ev::Note(..))).collect::<Vec<_>>()))
    });
    Scenario {
        name: format!("{prefix}/interval{}/lo{lower}-up{upper}/L{:?}/R{:?}", if keyed { "-keyed" } else { "" }, l, r).replace(' ', ""),
        descr,
        params: EnvParams { free_kinds: vec![Kind::Driver, Kind::Select], ..Default::default() },
        body,
        check,
        bound,
        orders: ORDERS3[..1].to_vec(),
        max_execs: 0,
        shards: 1,
        nontrivial: !l.is_empty() && !r.is_empty(),
        unbounded: false,
        loop_body: false,
        sometimes: vec![],
    }
}

pub fn scenarios(tier: Tier) -> Vec<Scenario> {
    let mut out = vec![];
    // non-decreasing timestamp lists over 0..=4
    let mut lists: Vec<Vec<i64>> = vec![vec![]];
    let maxlen = if tier == Tier::Quick { 2 } else { 3 };
    for len in 1..=maxlen {
        crate::e2::sequences(5, len, |s| {
            if s.windows(2).all(|w| w[0] <= w[1]) {
                lists.push(s.iter().map(|x| *x as i64).collect());
            }
        });
    }
    let bounds: Vec<(i64, i64)> = if tier == Tier::Quick { vec![(1, 1), (0, 2)] } else { vec![(0, 0), (1, 1), (0, 2), (2, 0), (2, 1)] };
    // whole jobs: both inputs derived from a 2-replica source, every shipping x local algorithm x
    // variant (and the one-call forms), on one host and on two
    {
        use crate::program::Instr::*;
        use crate::props::common::{program_scenario, JobCfg, SrcKind};
        let mut variants: Vec<(u8, u8, u8)> = vec![];
        for kind in 0..3u8 {
            for (ship, local) in [(0u8, 0u8), (0, 1), (1, 0), (1, 1), (2, 0)] {
                if ship == 1 && kind == 2 {
                    continue;
                }
                variants.push((kind, ship, local));
            }
        }
        let cfgs = [
            (JobCfg { layout: Layout::Local(2), batch: BatchMode::fixed(1), capacity: 0 }, if tier == Tier::Quick { 1 } else { 2 }),
            (JobCfg { layout: Layout::Remote(vec![1, 1]), batch: BatchMode::fixed(2), capacity: 0 }, if tier == Tier::Quick { 0 } else { 1 }),
        ];
        for (cfg, bound) in &cfgs {
            for (k, sh, lo) in &variants {
                for (prog, input) in [
                    (vec![Dup, Map, Join(*k, *sh, *lo)], vec![1i64, 2, 3, 4, 6]),
                    (vec![Dup, Filter, Swap, Shuffle, Join(*k, *sh, *lo)], vec![1, 2, 3, 4, 6]),
                ] {
                    if crate::program::well_formed(&prog, crate::program::Rep::Unl).is_none() {
                        continue;
                    }
                    out.push(program_scenario("C08/job", &prog, &input, SrcKind::Par(vec![0, 1, 0, 1, 1]), cfg, *bound, &ORDERS3[..1], "c08-job-".to_string()));
                }
            }
        }
    }
    for (lo, up) in bounds {
        for l in &lists {
            for r in &lists {
                out.push(interval_case("C08", l.clone(), r.clone(), lo, up, if tier == Tier::Quick { 0 } else { 1 }, false));
                if l.len() == maxlen && r.len() == maxlen {
                    out.push(interval_case("C08", l.clone(), r.clone(), lo, up, if tier == Tier::Quick { 0 } else { 1 }, true));
                }
            }
        }
    }
    out
}
