//! C05: the stream control protocol holds at every operator boundary; stateful operators emit
//! all results of an iteration before its FlushAndRestart and carry nothing into the next one.
use std::sync::Arc;
use std::time::Duration;

use renoir::operator::window::{CountWindow, EventTimeWindow, ProcessingTimeWindow, SessionWindow, TransactionOp, TransactionWindow};
use renoir::operator::StreamElement;
use renoir::{BatchMode, Replication, RuntimeConfig, Stream, StreamContext};

use crate::driver::{PropSpec, Tier};
use crate::e2::{drive, drive_binary, drive_one_upstream, grammar, loop_scenario, script_stream, select_scenario, shape, El, FailSet};
use crate::explore::{Fail, Scenario};
use crate::kit::{Payload, ScriptSource};
use crate::props::c13::{histories, Sym};
use crate::props::common::{program_scenario, JobCfg, SrcKind, ORDERS3};

type Src = Stream<ScriptSource<(i64, i64)>>;
/// normalised output element: (kind, timestamp, payload)
type Norm = (u8, Option<i64>, Vec<i64>);

fn norm<T: Payload>(out: &[El<T>]) -> Vec<Norm> {
    out.iter()
        .filter(|e| !matches!(e, StreamElement::FlushBatch))
        .map(|e| {
            let (k, t) = crate::kit::kind_of(e);
            let p = match e {
                StreamElement::Item(v) | StreamElement::Timestamped(v, _) => v.encoded(),
                _ => vec![],
            };
            (k, t, p)
        })
        .collect()
}

fn tx_op(v: &i64) -> TransactionOp {
    match v % 4 {
        1 => TransactionOp::Commit,
        2 => TransactionOp::CommitAfter(2),
        3 => TransactionOp::Discard,
        _ => TransactionOp::Continue,
    }
}

#[allow(clippy::type_complexity)]
fn operators() -> Vec<(String, Arc<dyn Fn(Vec<El<(i64, i64)>>) -> Vec<Norm> + Send + Sync>)> {
    let mut v: Vec<(String, Arc<dyn Fn(Vec<El<(i64, i64)>>) -> Vec<Norm> + Send + Sync>)> = vec![];
    fn s(script: Vec<El<(i64, i64)>>) -> Src {
        script_stream(script)
    }
    v.push(("keyed-fold".into(), Arc::new(|sc| norm(&drive(s(sc).to_keyed().fold(0i64, |a, x| *a += x).0.verif_into_chain().chain)))));
    v.push(("keyed-reduce".into(), Arc::new(|sc| norm(&drive(s(sc).to_keyed().reduce(|a, x| *a += x).0.verif_into_chain().chain)))));
    v.push(("global-fold".into(), Arc::new(|sc| {
        let vc = s(vec![]).fold(0i64, |a, x: (i64, i64)| *a += x.1).verif_into_chain();
        norm(&drive_one_upstream(vc, sc, false))
    })));
    v.push(("group-by-fold".into(), Arc::new(|sc| {
        let vc = s(vec![]).group_by_fold(|x: &(i64, i64)| x.0, 0i64, |a, x| *a += x.1, |a, x| *a += x).0.verif_into_chain();
        norm(&drive_one_upstream(vc, sc, true))
    })));
    v.push(("reorder".into(), Arc::new(|sc| norm(&drive(s(sc).reorder().verif_into_chain().chain)))));
    v.push(("flat-map".into(), Arc::new(|sc| norm(&drive(s(sc).flat_map(|x| vec![x, x]).verif_into_chain().chain)))));
    for exact in [true, false] {
        for (n, sl) in [(2usize, 1usize), (2, 2), (3, 2)] {
            v.push((format!("count-window-{n}-{sl}-exact{exact}"), Arc::new(move |sc| norm(&drive(s(sc).to_keyed().window(CountWindow::new(n, sl, exact)).map(|v: Vec<i64>| v).0.verif_into_chain().chain)))));
        }
    }
    for (size, sl) in [(2i64, 1i64), (2, 2), (3, 2)] {
        v.push((format!("event-time-window-{size}-{sl}"), Arc::new(move |sc| norm(&drive(s(sc).to_keyed().window(EventTimeWindow::sliding(size, sl)).map(|v: Vec<i64>| v).0.verif_into_chain().chain)))));
    }
    v.push(("transaction-window".into(), Arc::new(|sc| norm(&drive(s(sc).to_keyed().window(TransactionWindow::new(tx_op)).map(|v: Vec<i64>| v).0.verif_into_chain().chain)))));
    v.push(("session-window".into(), Arc::new(|sc| norm(&drive(s(sc).to_keyed().window(SessionWindow::new(Duration::from_millis(5))).map(|v: Vec<i64>| v).0.verif_into_chain().chain)))));
    v.push(("processing-time-window".into(), Arc::new(|sc| norm(&drive(s(sc).to_keyed().window(ProcessingTimeWindow::tumbling(Duration::from_millis(5))).map(|v: Vec<i64>| v).0.verif_into_chain().chain)))));
    v
}

fn split_iters(out: &[Norm]) -> Vec<Vec<Norm>> {
    let mut v = vec![vec![]];
    for e in out {
        if e.0 == crate::kit::K_FAR {
            v.push(vec![]);
        } else if e.0 != crate::kit::K_TERM {
            v.last_mut().unwrap().push(e.clone());
        }
    }
    v.pop();
    v
}

fn to_script(h: &[Sym], timestamped: bool) -> Vec<El<(i64, i64)>> {
    h.iter()
        .enumerate()
        .filter_map(|(i, s)| match s {
            Sym::T(k, t) => Some(if timestamped { StreamElement::Timestamped((*k, i as i64 + 1), *t) } else { StreamElement::Item((*k, i as i64 + 1)) }),
            Sym::W(w) => {
                if timestamped {
                    Some(StreamElement::Watermark(*w))
                } else {
                    None
                }
            }
            Sym::Far => Some(StreamElement::FlushAndRestart),
        })
        .collect()
}

fn binary_cases(tier: Tier) -> Vec<Scenario> {
    // two iterations on both sides; inputs (key, id)
    let mut out = vec![];
    let lists: Vec<Vec<(i64, i64)>> = if tier == Tier::Quick {
        vec![vec![], vec![(0, 1)], vec![(0, 1), (1, 2)]]
    } else {
        vec![vec![], vec![(0, 1)], vec![(1, 1)], vec![(0, 1), (1, 2)], vec![(0, 1), (0, 2)]]
    };
    #[derive(Clone, Copy, Debug)]
    enum Op2 {
        JoinHashInner,
        JoinHashOuter,
        JoinSortMergeLeft,
        JoinSortMergeOuter,
        KeyedOuter,
        Zip,
        Merge,
    }
    for op in [Op2::JoinHashInner, Op2::JoinHashOuter, Op2::JoinSortMergeLeft, Op2::JoinSortMergeOuter, Op2::KeyedOuter, Op2::Zip, Op2::Merge] {
        for l1 in &lists {
            for r1 in &lists {
                for (l2, r2) in [(vec![(0i64, 7i64)], vec![(0i64, 8i64)]), (vec![(1, 7)], vec![]), (vec![], vec![(1, 8)]), (vec![(0, 7)], vec![(1, 8)]), (vec![], vec![(0, 8)])] {
                    let (l1, r1) = (l1.clone(), r1.clone());
                    let name = format!("C05/binary/{:?}/L{:?}R{:?}-then-L{:?}R{:?}", op, l1, r1, l2, r2).replace(' ', "");
                    let descr = format!("{:?}: iteration 1 left {:?} right {:?}, iteration 2 left {:?} right {:?}; every interleaving of the two sides", op, l1, r1, l2, r2);
                    out.push(select_scenario(name, descr, Arc::new(move || {
                        let side = |a: &Vec<(i64, i64)>, b: &Vec<(i64, i64)>, off: i64| -> Vec<Vec<El<(i64, i64)>>> {
                            let mut v: Vec<Vec<El<(i64, i64)>>> = a.iter().map(|x| vec![StreamElement::Item((x.0, x.1 + off))]).collect();
                            v.push(vec![StreamElement::FlushAndRestart]);
                            v.extend(b.iter().map(|x| vec![StreamElement::Item((x.0, x.1 + off))]));
                            v.push(vec![StreamElement::FlushAndRestart]);
                            v.push(vec![StreamElement::Terminate]);
                            v
                        };
                        let lb = side(&l1, &l2, 0);
                        let rb = side(&r1, &r2, 100);
                        let env = StreamContext::new(RuntimeConfig::local(1).unwrap());
                        let s1 = env.stream(ScriptSource::<(i64, i64)>::new(vec![], Replication::One));
                        let s2 = env.stream(ScriptSource::<(i64, i64)>::new(vec![], Replication::One));
                        let k = |x: &(i64, i64)| x.0;
                        type P = (Option<i64>, Option<i64>);
                        let outn: Vec<Norm> = match op {
                            Op2::JoinHashInner => norm(&drive_binary(s1.join_with(s2, k, k).ship_hash().local_hash().inner().map(|(_, (l, r))| (Some(l.1), Some(r.1))).unkey().map(|x: (i64, P)| x.1).verif_into_chain(), vec![lb], vec![rb])),
                            Op2::JoinHashOuter => norm(&drive_binary(s1.join_with(s2, k, k).ship_hash().local_hash().outer().map(|(_, (l, r))| (l.map(|x| x.1), r.map(|x| x.1))).unkey().map(|x: (i64, P)| x.1).verif_into_chain(), vec![lb], vec![rb])),
                            Op2::JoinSortMergeLeft => norm(&drive_binary(s1.join_with(s2, k, k).ship_hash().local_sort_merge().left().map(|(_, (l, r))| (Some(l.1), r.map(|x| x.1))).unkey().map(|x: (i64, P)| x.1).verif_into_chain(), vec![lb], vec![rb])),
                            Op2::JoinSortMergeOuter => norm(&drive_binary(s1.join_with(s2, k, k).ship_hash().local_sort_merge().outer().map(|(_, (l, r))| (l.map(|x| x.1), r.map(|x| x.1))).unkey().map(|x: (i64, P)| x.1).verif_into_chain(), vec![lb], vec![rb])),
                            Op2::KeyedOuter => norm(&drive_binary(s1.to_keyed().join_outer(s2.to_keyed()).unkey().map(|x: (i64, P)| x.1).verif_into_chain(), vec![lb], vec![rb])),
                            Op2::Zip => norm(&drive_binary(s1.zip(s2).map(|(a, b)| (Some(a.1), Some(b.1))).verif_into_chain(), vec![lb], vec![rb])),
                            Op2::Merge => norm(&drive_binary(s1.merge(s2).map(|a| (Some(a.1), None::<i64>)).verif_into_chain(), vec![lb], vec![rb])),
                        };
                        let sh: Vec<(u8, Option<i64>)> = outn.iter().map(|e| (e.0, e.1)).collect();
                        if let Some((sig, msg)) = grammar(&sh) {
                            return Some(Fail::new(format!("c05-{:?}-grammar-{sig}", op), format!("{:?}: {msg}; output {:?}", op, outn)));
                        }
                        let its = split_iters(&outn);
                        if its.len() != 2 {
                            return Some(Fail::new(format!("c05-{:?}-iterations", op), format!("{:?}: {} iterations in the output, 2 in the input: {:?}", op, its.len(), outn)));
                        }
                        // reference per iteration
                        let reference = |l: &Vec<(i64, i64)>, r: &Vec<(i64, i64)>| -> Vec<Vec<i64>> {
                            let mut v: Vec<P> = vec![];
                            match op {
                                Op2::JoinHashInner | Op2::JoinHashOuter | Op2::JoinSortMergeLeft | Op2::JoinSortMergeOuter | Op2::KeyedOuter => {
                                    for a in l {
                                        let mut m = false;
                                        for b in r {
                                            if a.0 == b.0 {
                                                m = true;
                                                v.push((Some(a.1), Some(b.1 + 100)));
                                            }
                                        }
                                        if !m && !matches!(op, Op2::JoinHashInner) {
                                            v.push((Some(a.1), None));
                                        }
                                    }
                                    if matches!(op, Op2::JoinHashOuter | Op2::JoinSortMergeOuter | Op2::KeyedOuter) {
                                        for b in r {
                                            if !l.iter().any(|a| a.0 == b.0) {
                                                v.push((None, Some(b.1 + 100)));
                                            }
                                        }
                                    }
                                }
                                Op2::Zip => {
                                    for (a, b) in l.iter().zip(r.iter()) {
                                        v.push((Some(a.1), Some(b.1 + 100)));
                                    }
                                }
                                Op2::Merge => {
                                    for a in l {
                                        v.push((Some(a.1), None));
                                    }
                                    for b in r {
                                        v.push((Some(b.1 + 100), None));
                                    }
                                }
                            }
                            let mut e: Vec<Vec<i64>> = v.iter().map(|p| p.encoded()).collect();
                            e.sort();
                            e
                        };
                        for (i, (l, r)) in [(&l1, &r1), (&l2, &r2)].iter().enumerate() {
                            let mut got: Vec<Vec<i64>> = its[i].iter().filter(|e| e.0 <= 1).map(|e| e.2.clone()).collect();
                            got.sort();
                            let exp = reference(l, r);
                            if got != exp {
                                return Some(Fail::new(
                                    format!("c05-{:?}-iteration{}-{}", op, i + 1, if i == 1 { "carried-over-or-lost" } else { "wrong" }),
                                    format!("{:?}: iteration {} produced {:?}, a fresh operator on that iteration's input gives {:?} (full output {:?})", op, i + 1, got, exp, outn),
                                ));
                            }
                        }
                        None
                    })));
                }
            }
        }
    }
    // two upstream replicas on the left side: the per-side end accounting of the two-input Start
    // (LeftEnd only after BOTH replicas ended their iteration), every arrival order of the two
    // replicas' batches and every answer of the select
    for op in [Op2::JoinHashOuter, Op2::KeyedOuter, Op2::Merge, Op2::Zip] {
        for (la, lb, r) in [
            (vec![(0i64, 1i64)], vec![(0i64, 2i64)], vec![(0i64, 9i64)]),
            (vec![(1, 1)], vec![], vec![(1, 9), (0, 8)]),
            (vec![], vec![(0, 2)], vec![]),
        ] {
            let name = format!("C05/binary-2-left-replicas/{:?}/LA{:?}LB{:?}R{:?}", op, la, lb, r).replace(' ', "");
            let descr = format!("{:?}: left side fed by two upstream replicas {:?} and {:?}, right side {:?}; one iteration; every arrival order", op, la, lb, r);
            out.push(select_scenario(name, descr, Arc::new(move || {
                let mk = |a: &Vec<(i64, i64)>, off: i64| -> Vec<Vec<El<(i64, i64)>>> {
                    let mut v: Vec<Vec<El<(i64, i64)>>> = a.iter().map(|x| vec![StreamElement::Item((x.0, x.1 + off))]).collect();
                    v.push(vec![StreamElement::FlushAndRestart]);
                    v.push(vec![StreamElement::Terminate]);
                    v
                };
                let env = StreamContext::new(RuntimeConfig::local(1).unwrap());
                let s1 = env.stream(ScriptSource::<(i64, i64)>::new(vec![], Replication::One));
                let s2 = env.stream(ScriptSource::<(i64, i64)>::new(vec![], Replication::One));
                let k = |x: &(i64, i64)| x.0;
                type P = (Option<i64>, Option<i64>);
                let left = vec![mk(&la, 0), mk(&lb, 0)];
                let right = vec![mk(&r, 100)];
                let outn: Vec<Norm> = match op {
                    Op2::JoinHashOuter => norm(&drive_binary(s1.join_with(s2, k, k).ship_hash().local_hash().outer().map(|(_, (l, r))| (l.map(|x| x.1), r.map(|x| x.1))).unkey().map(|x: (i64, P)| x.1).verif_into_chain(), left, right)),
                    Op2::KeyedOuter => norm(&drive_binary(s1.to_keyed().join_outer(s2.to_keyed()).unkey().map(|x: (i64, P)| x.1).verif_into_chain(), left, right)),
                    Op2::Zip => norm(&drive_binary(s1.zip(s2).map(|(a, b)| (Some(a.1), Some(b.1))).verif_into_chain(), left, right)),
                    _ => norm(&drive_binary(s1.merge(s2).map(|a| (Some(a.1), None::<i64>)).verif_into_chain(), left, right)),
                };
                let sh: Vec<(u8, Option<i64>)> = outn.iter().map(|e| (e.0, e.1)).collect();
                if let Some((sig, msg)) = grammar(&sh) {
                    return Some(Fail::new(format!("c05-2rep-{:?}-grammar-{sig}", op), format!("{:?}: {msg}; output {:?}", op, outn)));
                }
                let its = split_iters(&outn);
                if its.len() != 1 {
                    return Some(Fail::new(format!("c05-2rep-{:?}-iterations", op), format!("{:?}: {} iterations out, 1 in: {:?}", op, its.len(), outn)));
                }
                let mut l: Vec<(i64, i64)> = la.clone();
                l.extend(lb.iter().copied());
                let mut exp: Vec<P> = vec![];
                match op {
                    Op2::JoinHashOuter | Op2::KeyedOuter => {
                        for a in &l {
                            let mut m = false;
                            for b in &r {
                                if a.0 == b.0 {
                                    m = true;
                                    exp.push((Some(a.1), Some(b.1 + 100)));
                                }
                            }
                            if !m {
                                exp.push((Some(a.1), None));
                            }
                        }
                        for b in &r {
                            if !l.iter().any(|a| a.0 == b.0) {
                                exp.push((None, Some(b.1 + 100)));
                            }
                        }
                    }
                    Op2::Zip => {
                        // with two left replicas only the number of pairs and no reuse are fixed
                        let got: Vec<Vec<i64>> = its[0].iter().filter(|e| e.0 <= 1).map(|e| e.2.clone()).collect();
                        if got.len() != l.len().min(r.len()) {
                            return Some(Fail::new("c05-2rep-Zip-count", format!("zip: {} pairs, expected {}: {:?}", got.len(), l.len().min(r.len()), got)));
                        }
                        return None;
                    }
                    _ => {
                        for a in &l {
                            exp.push((Some(a.1), None));
                        }
                        for b in &r {
                            exp.push((Some(b.1 + 100), None));
                        }
                    }
                }
                let mut e: Vec<Vec<i64>> = exp.iter().map(|p| p.encoded()).collect();
                e.sort();
                let mut got: Vec<Vec<i64>> = its[0].iter().filter(|e| e.0 <= 1).map(|e| e.2.clone()).collect();
                got.sort();
                if got != e {
                    return Some(Fail::new(format!("c05-2rep-{:?}-wrong", op), format!("{:?} with left replicas {:?} / {:?} and right {:?}: got {:?}, expected {:?} (full output {:?})", op, la, lb, r, got, e, outn)));
                }
                None
            })));
        }
    }
    out
}

fn build(tier: Tier) -> Vec<Scenario> {
    let mut out = vec![];
    let (len, tmax) = match tier {
        Tier::Quick => (5usize, 2i64),
        Tier::Thorough => (6, 3),
    };
    for (name, run) in operators() {
        for timestamped in [true, false] {
            if !timestamped && (name.starts_with("event-time") || name.starts_with("transaction") || name == "reorder") {
                continue;
            }
            let name2 = name.clone();
            let run = run.clone();
            out.push(loop_scenario(
                format!("C05/operator/{name}/ts{timestamped}/len{len}"),
                format!("all grammar-conforming histories (2 keys, {}ends of iteration) of length <= {len} through {name}: output grammar, and every iteration after the first compared with a fresh operator run on that iteration alone", if timestamped { "timestamps, watermarks, " } else { "" }),
                Arc::new(move || {
                    let mut cases = 0;
                    let mut nontrivial = 0;
                    let mut fails = FailSet::default();
                    histories(2, tmax, len, &mut |h| {
                        if fails.full() {
                            return;
                        }
                        if !timestamped && h.iter().any(|s| matches!(s, Sym::W(_))) {
                            return;
                        }
                        cases += 1;
                        let fars = h.iter().filter(|s| **s == Sym::Far).count();
                        if fars >= 1 && h.last() != Some(&Sym::Far) {
                            nontrivial += 1;
                        }
                        let full = run(to_script(h, timestamped));
                        let sh: Vec<(u8, Option<i64>)> = full.iter().map(|e| (e.0, e.1)).collect();
                        if let Some((sig, msg)) = grammar(&sh) {
                            fails.add(Some(Fail::new(format!("c05-{name2}-grammar-{sig}"), format!("{name2}: history {:?}: {msg}; output {:?}", h, full))));
                            return;
                        }
                        let n_iters = if h.last() == Some(&Sym::Far) || h.is_empty() { fars.max(1) } else { fars + 1 };
                        let its = split_iters(&full);
                        if its.len() != n_iters {
                            fails.add(Some(Fail::new(format!("c05-{name2}-iterations"), format!("{name2}: history {:?}: {} iterations out, {} in; output {:?}", h, its.len(), n_iters, full))));
                            return;
                        }
                        // FlushBatch is transparent: the same history with a FlushBatch (what a block
                        // input reports when its timed receive expires) before every element gives
                        // the same output
                        {
                            let mut sc2: Vec<El<(i64, i64)>> = vec![];
                            for e in to_script(h, timestamped) {
                                // (before the element: a script must not end with a FlushBatch, the
                                // source would close the iteration once more)
                                sc2.push(StreamElement::FlushBatch);
                                sc2.push(e);
                            }
                            let strip = |v: &Vec<Norm>| -> Vec<Norm> { v.iter().filter(|e| e.0 != crate::kit::K_FB).cloned().collect() };
                            let with_fb = strip(&run(sc2));
                            let plain = strip(&full);
                            if with_fb != plain {
                                fails.add(Some(Fail::new(
                                    format!("c05-{name2}-flushbatch-not-transparent"),
                                    format!("{name2}: history {:?}: with a FlushBatch before every element the output is {:?}, without {:?}", h, with_fb, plain),
                                )));
                            }
                        }
                        // differential: iteration k>=2 alone on a fresh operator
                        let mut start = 0;
                        let mut k = 0;
                        for (i, s) in h.iter().enumerate() {
                            if *s == Sym::Far || i + 1 == h.len() {
                                let end = if *s == Sym::Far { i } else { i + 1 };
                                if k >= 1 {
                                    // same payloads: rebuild the script with the original indices
                                    let sub: Vec<El<(i64, i64)>> = to_script(h, timestamped)
                                        .into_iter()
                                        .zip(h.iter().enumerate().filter(|(_, s)| timestamped || !matches!(s, Sym::W(_))).map(|(j, _)| j))
                                        .filter(|(_, j)| *j >= start && *j < end)
                                        .map(|(e, _)| e)
                                        .collect();
                                    let alone = run(sub);
                                    let mut a = split_iters(&alone).into_iter().next().unwrap_or_default();
                                    let mut b = its[k].clone();
                                    a.sort();
                                    b.sort();
                                    if a != b {
                                        fails.add(Some(Fail::new(
                                            format!("c05-{name2}-carried-over"),
                                            format!("{name2}: history {:?}: iteration {} outputs {:?} but the same iteration on a fresh operator outputs {:?}", h, k + 1, b, a),
                                        )));
                                    }
                                }
                                k += 1;
                                start = i + 1;
                            }
                        }
                    });
                    (cases, nontrivial, fails.first())
                }),
            ));
        }
    }
    out.extend(binary_cases(tier));
    // grammar at the job level: probes after every instruction of program jobs
    use crate::program::Instr::*;
    let progs: Vec<Vec<crate::program::Instr>> = vec![
        vec![Shuffle, Map, GbSum],
        vec![Dup, Map, Shuffle, Swap, Shuffle, Merge],
        vec![Dup, Map, Join(2, 0, 0)],
        vec![Shuffle, Replay(2, vec![Shuffle, Map])],
        vec![Shuffle, Iterate(2, vec![Shuffle, Filter])],
        vec![FoldAssoc],
        vec![BcastMax],
    ];
    for p in progs {
        for (layout, batch) in [(crate::kit::Layout::Local(2), BatchMode::fixed(1)), (crate::kit::Layout::Local(3), BatchMode::single())] {
            let cfg = JobCfg { layout, batch, capacity: 0 };
            let mut s = program_scenario("C05/job", &p, &[1, 2, 3, 4], SrcKind::Iter, &cfg, if tier == Tier::Quick { 1 } else { 2 }, &ORDERS3[..1], String::new());
            s.body = crate::props::common::program_body_probed(p.clone(), vec![1, 2, 3, 4], SrcKind::Iter, cfg.clone());
            let inner = s.check.clone();
            let p2 = p.clone();
            s.check = Arc::new(move |r| {
                let h = inner(r)?;
                let has_loop = p2.iter().any(|i| matches!(i, Replay(..) | Iterate(..)));
                crate::props::common::probe_grammar_n(&r.log, if has_loop { None } else { Some(1) })?;
                Ok(h)
            });
            out.push(s);
        }
    }
    // the streaming source: one end of iteration whatever the moment its channel is closed
    for (n, late) in [(0usize, false), (2, false), (2, true), (4, true)] {
        out.push(crate::props::c15::channel_source_scenario("C05", n, 2, if tier == Tier::Quick { 1 } else { 2 }, late));
    }
    // slow sources and timed batching: markers must not overtake buffered data on any link
    out.extend(crate::props::timed::scenarios("C05", tier == Tier::Quick, "C05"));
    out
}

pub fn spec() -> PropSpec {
    PropSpec {
        id: "C05",
        build,
        rule: "(1) every stateful operator (keyed fold/reduce, global fold and two-phase fold behind their Start, reorder, count / event-time / transaction / session / processing-time windows; flat_map as a stateless control) driven directly with ALL grammar-conforming histories over 2 keys up to the length bound, spanning several iterations: the output must match ((Item|Timestamped|Watermark|FlushBatch)* FlushAndRestart)+ Terminate with one FlushAndRestart per input iteration, and the output of every iteration after the first must equal what a fresh operator outputs for that iteration alone; (2) two-input operators (hash / sort-merge / keyed joins, zip, merge) through the real two-input Start for two iterations, all interleavings of the sides, per-iteration reference; (3) probes after every operator of whole jobs (shuffles, diamonds, joins, loops) under schedule exploration: the grammar holds for every replica at every probe; non-trivial = history with at least two iterations",
        assumptions: &["histories up to the stated length"],
        exhaustive_when_uncapped: true,
        budget_s: (50, 1500),
    }
}
