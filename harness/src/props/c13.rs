//! C13: event-time windows never lose, duplicate or mix elements and fire on watermarks;
//! transaction windows commit as the user logic dictates.
use std::sync::Arc;

use renoir::operator::window::{EventTimeWindow, TransactionOp, TransactionWindow};
use renoir::operator::StreamElement;

use crate::driver::{PropSpec, Tier};
use crate::e2::{counted_stream, drive_aligned, loop_scenario, El};
use crate::explore::{Fail, Scenario};

/// One input symbol of a history.
#[derive(Clone, Copy, Debug, PartialEq)]
pub enum Sym {
    /// element of key k with timestamp t
    T(i64, i64),
    W(i64),
    Far,
}

/// All contract-respecting histories of length <= `len`: inside an iteration watermarks strictly
/// increase and every element is later than the last watermark.
pub fn histories(keys: i64, tmax: i64, len: usize, f: &mut dyn FnMut(&[Sym])) {
    fn rec(keys: i64, tmax: i64, len: usize, cur: &mut Vec<Sym>, wm: Option<i64>, f: &mut dyn FnMut(&[Sym])) {
        if crate::e2::out_of_time() {
            return;
        }
        f(cur);
        if cur.len() == len {
            return;
        }
        let lo = wm.map(|w| w + 1).unwrap_or(0);
        for k in 0..keys {
            for t in lo..=tmax {
                cur.push(Sym::T(k, t));
                rec(keys, tmax, len, cur, wm, f);
                cur.pop();
            }
        }
        for w in lo..=tmax + 1 {
            cur.push(Sym::W(w));
            rec(keys, tmax, len, cur, Some(w), f);
            cur.pop();
        }
        if !matches!(cur.last(), Some(Sym::Far)) {
            cur.push(Sym::Far);
            rec(keys, tmax, len, cur, None, f);
            cur.pop();
        }
    }
    rec(keys, tmax, len, &mut vec![], None, f);
}

fn ceil_div(a: i64, b: i64) -> i64 {
    (a + b - 1) / b
}

/// Check one history against the statement. Element payload = its index in the history.
fn check_event_time(h: &[Sym], size: i64, slide: i64) -> Option<Fail> {
    let script: Vec<El<(i64, i64)>> = h
        .iter()
        .enumerate()
        .map(|(i, s)| match s {
            Sym::T(k, t) => StreamElement::Timestamped((*k, i as i64), *t),
            Sym::W(w) => StreamElement::Watermark(*w),
            Sym::Far => StreamElement::FlushAndRestart,
        })
        .collect();
    let (s, counter) = counted_stream(script);
    let chain = s
        .to_keyed()
        .window(EventTimeWindow::sliding(size, slide))
        .map(|v: Vec<i64>| v)
        .0
        .verif_into_chain()
        .chain;
    let out = drive_aligned(chain, &counter);
    let descr = || format!("size={size} slide={slide} history={:?}", h);
    // iteration of every input index
    let mut iter_of = vec![0usize; h.len() + 2];
    let mut it = 0;
    for (i, s) in h.iter().enumerate() {
        iter_of[i] = it;
        if *s == Sym::Far {
            it += 1;
        }
    }
    let n_iters = if h.last() == Some(&Sym::Far) || h.is_empty() { it.max(1) } else { it + 1 };
    // how often each element was output, results per iteration
    let mut covered = vec![0i64; h.len()];
    let mut out_iter = 0usize;
    let mut out_wm: Option<i64> = None; // last watermark forwarded in this iteration
    for (consumed, e) in &out {
        match e {
            StreamElement::Timestamped((k, ids), _) | StreamElement::Item((k, ids)) => {
                let stamp = match e {
                    StreamElement::Timestamped(_, t) => Some(*t),
                    _ => None,
                };
                if ids.is_empty() {
                    return Some(Fail::new("c13-empty-result", format!("{}: empty window result", descr())));
                }
                let mut tss = vec![];
                for &id in ids {
                    let id = id as usize;
                    match h.get(id) {
                        Some(Sym::T(k2, t)) => {
                            if k2 != k {
                                return Some(Fail::new("c13-mixed-keys", format!("{}: result of key {k} contains element {id} of key {k2}", descr())));
                            }
                            if iter_of[id] != out_iter {
                                return Some(Fail::new("c13-mixed-iterations", format!("{}: result in iteration {out_iter} contains element {id} of iteration {}", descr(), iter_of[id])));
                            }
                            tss.push(*t);
                            covered[id] += 1;
                        }
                        _ => return Some(Fail::new("c13-phantom", format!("{}: result contains unknown element {id}", descr()))),
                    }
                }
                let (mn, mx) = (*tss.iter().min().unwrap(), *tss.iter().max().unwrap());
                if mx - mn >= size {
                    return Some(Fail::new("c13-window-too-wide", format!("{}: result {:?} spans timestamps {mn}..={mx}, more than one window of length {size}", descr(), ids)));
                }
                // firing window, using the result's stamp as the window end
                if let Some(end) = stamp {
                    if mx >= end || mn < end - size {
                        return Some(Fail::new("c13-outside-stamped-window", format!("{}: result {:?} stamped {end} holds timestamps {mn}..={mx}", descr(), ids)));
                    }
                    // (1) not before a watermark reaching the window end, or the iteration end
                    let last_in = consumed - 1;
                    let at_far = matches!(h.get(last_in), Some(Sym::Far)) || last_in >= h.len();
                    let reached = (0..=last_in.min(h.len().saturating_sub(1)))
                        .filter(|i| iter_of[*i] == out_iter)
                        .any(|i| matches!(h[i], Sym::W(w) if w >= end - 1));
                    if !at_far && !reached {
                        return Some(Fail::new("c13-fired-too-early", format!("{}: window ending {end} emitted after input #{last_in} without a watermark >= {} nor end of iteration", descr(), end - 1)));
                    }
                    // (2) not after the first watermark beyond the end was forwarded
                    if let Some(w) = out_wm {
                        if w > end {
                            return Some(Fail::new("c13-fired-too-late", format!("{}: window ending {end} emitted after Watermark({w}) had been forwarded", descr())));
                        }
                    }
                }
            }
            StreamElement::Watermark(w) => out_wm = Some(*w),
            StreamElement::FlushAndRestart => {
                out_iter += 1;
                out_wm = None;
            }
            _ => {}
        }
    }
    if out_iter != n_iters {
        return Some(Fail::new("c13-iterations", format!("{}: {} iterations out, {} in", descr(), out_iter, n_iters)));
    }
    let maxcov = ceil_div(size, slide);
    for (i, s) in h.iter().enumerate() {
        if let Sym::T(k, t) = s {
            if covered[i] == 0 {
                // classify: the element is older than every element of its key seen before it in
                // this iteration (i.e. it precedes the first window allocated for the key)
                let earlier: Vec<i64> = (0..i)
                    .filter(|j| iter_of[*j] == iter_of[i])
                    .filter_map(|j| match h[j] {
                        Sym::T(k2, t2) if k2 == *k => Some(t2),
                        _ => None,
                    })
                    .collect();
                let sig = if !earlier.is_empty() && earlier.iter().all(|t2| t2 > t) {
                    "c13-lost-element-older-than-first-window"
                } else {
                    "c13-lost-element"
                };
                return Some(Fail::new(sig, format!("{}: element #{i} (key {k}, ts {t}) is in no window result although it is not late", descr())));
            }
            if covered[i] > maxcov {
                return Some(Fail::new("c13-duplicated-element", format!("{}: element #{i} appears in {} results, at most {maxcov} allowed", descr(), covered[i])));
            }
        }
    }
    None
}

// transaction windows -----------------------------------------------------------------------------

fn tx_op(v: &i64) -> TransactionOp {
    // payload encodes the command: id*10 + cmd ; CommitAfter uses (id*10+cmd)/100 as time... keep simple
    match v % 10 {
        1 => TransactionOp::Commit,
        2 => TransactionOp::CommitAfter(2),
        3 => TransactionOp::CommitAfter(4),
        4 => TransactionOp::Discard,
        _ => TransactionOp::Continue,
    }
}

/// history symbols: 0..=4 element with that command (timestamps increase with position), 5/6/7
/// watermark 1/2/4 (2 and 4 are exactly the two commit-after times), 8 FAR. One key.
fn check_transaction(h: &[usize]) -> Option<Fail> {
    let mut script: Vec<El<(i64, i64)>> = vec![];
    let mut wm = -1i64;
    let mut ok = true;
    for (i, &s) in h.iter().enumerate() {
        match s {
            0..=4 => script.push(StreamElement::Timestamped((0, i as i64 * 10 + s as i64), wm + 1)),
            5..=7 => {
                let w = [1, 2, 4][s - 5];
                if w <= wm {
                    ok = false;
                }
                wm = w;
                script.push(StreamElement::Watermark(w));
            }
            _ => {
                wm = -1;
                script.push(StreamElement::FlushAndRestart)
            }
        }
    }
    if !ok {
        return None; // not contract respecting
    }
    let (s, counter) = counted_stream(script);
    let chain = s
        .to_keyed()
        .window(TransactionWindow::new(tx_op))
        .map(|v: Vec<i64>| v)
        .0
        .verif_into_chain()
        .chain;
    let out = drive_aligned(chain, &counter);
    // reference: direct reading of the commands
    let mut expected: Vec<(usize, Vec<i64>)> = vec![]; // (input index that triggers it, content)
    let mut open: Option<(Vec<i64>, Option<i64>)> = None;
    for (i, &s) in h.iter().enumerate() {
        match s {
            0..=4 => {
                let v = i as i64 * 10 + s as i64;
                let w = open.get_or_insert((vec![], None));
                w.0.push(v);
                match s {
                    1 => expected.push((i, open.take().unwrap().0)),
                    2 => w.1 = Some(2),
                    3 => w.1 = Some(4),
                    4 => open = None,
                    _ => {}
                }
            }
            5..=7 => {
                let wv = [1, 2, 4][s - 5];
                if let Some((_, Some(c))) = &open {
                    if *c < wv {
                        expected.push((i, open.take().unwrap().0));
                    }
                }
            }
            _ => {
                // end of iteration: a window with a pending commit time is committed; one the
                // user never asked to commit is not (and nothing may leak into the next iteration)
                if let Some((_, Some(_))) = &open {
                    expected.push((i, open.take().unwrap().0));
                }
                open = None;
            }
        }
    }
    if h.last() != Some(&8) {
        if let Some((_, Some(_))) = &open {
            expected.push((h.len(), open.take().unwrap().0));
        }
    }
    let got: Vec<(usize, Vec<i64>)> = out
        .iter()
        .filter_map(|(c, e)| match e {
            StreamElement::Item((_, v)) | StreamElement::Timestamped((_, v), _) => Some((c - 1, v.clone())),
            _ => None,
        })
        .collect();
    if got != expected {
        let carried = got.iter().any(|(_, v)| {
            // a result mixing elements of two iterations
            let its: std::collections::BTreeSet<usize> = v
                .iter()
                .map(|x| h[..(*x / 10) as usize].iter().filter(|s| **s == 8).count())
                .collect();
            its.len() > 1
        });
        return Some(Fail::new(
            if carried { "c13-tx-carried-over-iteration" } else { "c13-tx-wrong-commit" },
            format!("transaction history {:?} (0 continue,1 commit,2 commit-after(2),3 commit-after(4),4 discard,5/6/7 watermark 1/2/4,8 end of iteration): got (trigger input, content) {:?}, user logic dictates {:?}", h, got, expected),
        ));
    }
    None
}

/// Long histories: many keys, many open windows (size 64 slide 1 keeps 64 per key), elements up
/// to `jitter` behind the newest one but never late, a watermark every few elements, two
/// iterations.
fn long_history(n: i64, keys: i64, jitter: i64) -> Vec<Sym> {
    let mut h = vec![];
    for it in 0..2 {
        let mut wm = -1i64;
        for i in 0..n {
            // deterministic scramble inside the allowed lateness
            let t = (i - (i * 7 + it) % (jitter + 1)).max(wm + 1).max(0);
            h.push(Sym::T(i % keys, t));
            if i % 5 == 4 {
                wm = i - jitter - 1;
                if wm >= 0 {
                    h.push(Sym::W(wm));
                }
            }
        }
        h.push(Sym::Far);
    }
    h
}

fn build(tier: Tier) -> Vec<Scenario> {
    let mut out = vec![];
    out.push(loop_scenario(
        "C13/event-time/long-histories".to_string(),
        "histories of 2 x 400 elements over 150 / 3 keys, out of order within a lateness of 0, 3 or 20, a watermark every 5 elements, for window (size, slide) in (64,1), (100,7), (8,8), (1200,400)".to_string(),
        Arc::new(move || {
            let mut cases = 0;
            let mut fail = None;
            for (size, slide) in [(64i64, 1i64), (100, 7), (8, 8), (1200, 400)] {
                for keys in [150i64, 3] {
                    for jitter in [0i64, 3, 20] {
                        if fail.is_some() {
                            break;
                        }
                        cases += 1;
                        fail = check_event_time(&long_history(400, keys, jitter), size, slide).map(|f| {
                            Fail::new(f.sig.clone(), format!("long history (400 elements per iteration, {keys} keys, lateness {jitter}) size {size} slide {slide}: {}", f.msg.chars().rev().take(400).collect::<Vec<_>>().into_iter().rev().collect::<String>()))
                        });
                    }
                }
            }
            (cases, cases, fail)
        }),
    ));
    let (len1, len2, tmax) = match tier {
        Tier::Quick => (6usize, 5usize, 4i64),
        Tier::Thorough => (7, 6, 6),
    };
    for size in 1..=4i64 {
        for slide in 1..=size {
            for (keys, len) in [(1i64, len1), (2, len2)] {
                out.push(loop_scenario(
                    format!("C13/event-time/size{size}-slide{slide}-keys{keys}-len{len}"),
                    format!("all contract-respecting histories (elements with ts 0..={tmax} of {keys} key(s), watermarks, ends of iteration) of length <= {len}, window size {size} slide {slide}"),
                    Arc::new(move || {
                        let mut cases = 0;
                        let mut nontrivial = 0;
                        let mut fail = None;
                        histories(keys, tmax, len, &mut |h| {
                            if fail.is_some() {
                                return;
                            }
                            cases += 1;
                            // non-trivial: out-of-order arrival or a watermark on a boundary
                            let ts: Vec<i64> = h.iter().filter_map(|s| if let Sym::T(_, t) = s { Some(*t) } else { None }).collect();
                            if ts.windows(2).any(|w| w[1] < w[0]) {
                                nontrivial += 1;
                            }
                            fail = check_event_time(h, size, slide);
                        });
                        (cases, nontrivial, fail)
                    }),
                ));
            }
        }
    }
    let txlen = match tier {
        Tier::Quick => 5,
        Tier::Thorough => 7,
    };
    out.push(loop_scenario(
        format!("C13/transaction/len{txlen}"),
        format!("all command/watermark/end-of-iteration sequences of length <= {txlen} for a transaction window"),
        Arc::new(move || {
            let mut cases = 0;
            let mut nontrivial = 0;
            let mut fail = None;
            for l in 0..=txlen {
                crate::e2::sequences(9, l, |h| {
                    if fail.is_some() {
                        return;
                    }
                    cases += 1;
                    if h.iter().any(|s| (1..=3).contains(s)) {
                        nontrivial += 1;
                    }
                    fail = check_transaction(h);
                });
            }
            (cases, nontrivial, fail)
        }),
    ));
    // whole jobs: two source replicas with their own watermarks -> group_by -> window -> sink,
    // so that the watermark frontier of the window's block is part of the picture
    for (size, slide) in [(2i64, 2i64), (3, 1)] {
        for scripts in [
            vec![vec![(0i64, 0i64), (1, 1), (0, 3)], vec![(0, 1), (0, 2), (1, 4)]],
            vec![vec![(0, 2), (0, 5)], vec![]],
            vec![vec![(0, 0)], vec![(0, 4), (0, 4), (1, 5)]],
        ] {
            out.push(job_scenario(size, slide, scripts, if tier == Tier::Quick { 1 } else { 2 }));
        }
    }
    if tier == Tier::Quick {
        crate::props::common::deepen(&mut out, &|n| n.starts_with("C13/job/"));
    }
    out
}

/// scripts[replica] = (key, timestamp) in timestamp order; each element is followed by a
/// watermark with its timestamp - 1 (so equal timestamps may follow).
fn job_scenario(size: i64, slide: i64, scripts: Vec<Vec<(i64, i64)>>, bound: usize) -> Scenario {
    use crate::rt::{Ev, Status};
    use renoir::prelude::*;
    let name = format!("C13/job/size{size}-slide{slide}/{:?}", scripts).replace(' ', "");
    let descr = format!("2 source replicas emitting (key, ts) {:?} with watermarks -> group_by(key) -> event-time window size {size} slide {slide} -> collect; every schedule within the bound", scripts);
    let sc2 = scripts.clone();
    let body: crate::rt::Body = Arc::new(move || {
        let env = crate::kit::Layout::Local(2).env(0);
        let mut ss: Vec<Vec<El<(i64, i64)>>> = vec![];
        for (r, s) in sc2.iter().enumerate() {
            let mut v = vec![];
            for (i, (k, t)) in s.iter().enumerate() {
                v.push(StreamElement::Timestamped((*k, (r * 100 + i) as i64), *t));
                if *t > 0 {
                    v.push(StreamElement::Watermark(*t - 1));
                }
            }
            ss.push(v);
        }
        // watermarks must increase strictly per replica
        for v in ss.iter_mut() {
            let mut last = -1i64;
            v.retain(|e| match e {
                StreamElement::Watermark(w) => {
                    if *w > last {
                        last = *w;
                        true
                    } else {
                        false
                    }
                }
                _ => true,
            });
        }
        let out = env
            .stream(crate::kit::ScriptSource::new(ss, renoir::Replication::Unlimited))
            .batch_mode(renoir::BatchMode::fixed(1))
            .group_by(|x: &(i64, i64)| x.0)
            .window(EventTimeWindow::sliding(size, slide))
            .map(|v: Vec<(i64, i64)>| v.into_iter().map(|x| x.1).collect::<Vec<i64>>())
            .collect_vec();
        env.execute_blocking();
        crate::kit::log_sink("windows", 0, out.get());
    });
    let check: crate::explore::Check = Arc::new(move |r| {
        if r.status != Status::Done {
            return Err(Fail::new("c13-job-abnormal", format!("{:?}", r.status)));
        }
        let (n, rows) = crate::kit::sink_rows(&r.log, "windows");
        if n != 1 {
            return Err(Fail::new("c13-job-no-result", format!("sink published {n} times")));
        }
        // rows: [key, len, ids...]
        let mut cover: std::collections::BTreeMap<i64, i64> = Default::default();
        for row in rows.unwrap() {
            let key = row[0];
            let ids = &row[2..];
            let mut tss = vec![];
            for id in ids {
                let (rep, i) = ((*id / 100) as usize, (*id % 100) as usize);
                let (k, t) = scripts[rep][i];
                if k != key {
                    return Err(Fail::new("c13-job-mixed-keys", format!("result of key {key} holds element {id} of key {k}")));
                }
                tss.push(t);
                *cover.entry(*id).or_insert(0) += 1;
            }
            if tss.iter().max().unwrap() - tss.iter().min().unwrap() >= size {
                return Err(Fail::new("c13-job-window-too-wide", format!("result {:?} spans {:?}", ids, tss)));
            }
        }
        let maxcov = (size + slide - 1) / slide;
        for (rep, s) in scripts.iter().enumerate() {
            for i in 0..s.len() {
                let id = (rep * 100 + i) as i64;
                let c = cover.get(&id).copied().unwrap_or(0);
                if c == 0 {
                    return Err(Fail::new("c13-job-lost-element", format!("element {id} {:?} is in no window result", s[i])));
                }
                if c > maxcov {
                    return Err(Fail::new("c13-job-duplicated-element", format!("element {id} is in {c} results")));
                }
            }
        }
        Ok(crate::explore::hash_of(&r.log.iter().filter(|e| matches!(e, Ev::Note(..))).collect::<Vec<_>>()))
    });
    Scenario {
        name,
        descr,
        params: crate::rt::EnvParams::default(),
        body,
        check,
        bound,
        orders: crate::props::common::ORDERS3.to_vec(),
        max_execs: 0,
        shards: 1,
        nontrivial: true,
        unbounded: false,
        loop_body: false,
        sometimes: vec![],
    }
}

pub fn spec() -> PropSpec {
    PropSpec {
        id: "C13",
        build,
        rule: "for every size 1..4 and slide 1..size: ALL contract-respecting histories (timestamped elements of 1-2 keys incl. out-of-order arrival, watermarks incl. on window boundaries, ends of iteration) up to the length bound through the real keyed event-time window operator; oracle = the statement (one key and one window-length interval per result, coverage 1..ceil(size/slide) per non-late element, firing between the watermark reaching the window end and the first watermark beyond it); transaction windows: all command sequences vs a direct reading of the commands; non-trivial = history with out-of-order timestamps (event time) / with a commit (transaction)",
        assumptions: &["histories up to the stated length, timestamps 0..=6"],
        exhaustive_when_uncapped: true,
        budget_s: (50, 1200),
    }
}
