//! C18: batching never withholds data: bounded delay if adaptive, flushed at round end.
use std::sync::Arc;
use std::time::Duration;

use renoir::operator::source::ChannelSource;
use renoir::prelude::*;
use renoir::verif::{thread, Rt};
use renoir::BatchMode;

use crate::driver::{PropSpec, Tier};
use crate::explore::{hash_of, Check, Fail, Scenario};
use crate::kit::{erase, Layout, DS};
use crate::props::common::ORDERS3;
use crate::rt::{log, EnvParams, Ev, Status, RT};

const DELTA_MS: u64 = 50;

fn scenario(depth: usize, batch: BatchMode, pauses: Vec<u64>, p: u64, bound: usize) -> Scenario {
    scenario_m(depth, batch, pauses, p, bound, None)
}

const SIDE: i64 = 5000;

/// `merged`: the channel source is first merged with a bounded stream of one element (5000) that
/// ended long ago - `Some(false)`: channel.merge(bounded), `Some(true)`: bounded.merge(channel).
/// The two-input block must go on producing batch flushes for its live input.
fn scenario_m(depth: usize, batch: BatchMode, pauses: Vec<u64>, p: u64, bound: usize, merged: Option<bool>) -> Scenario {
    let k = pauses.len();
    let adaptive = matches!(batch, BatchMode::Adaptive(..));
    let mname = match merged {
        None => "",
        Some(false) => "merge-ended-right/",
        Some(true) => "merge-ended-left/",
    };
    let name = format!("C18/{mname}depth{depth}/{:?}/pauses{:?}/p{p}", batch, pauses).replace(' ', "");
    let descr = format!("channel source {}-> {depth} block boundaries -> collect_channel, batch mode {:?}, {k} elements sent after pauses of {:?} ms, then the sender stays idle (not closed); parallelism {p}", if merged.is_some() { "merged with a bounded one-element stream that has already ended " } else { "" }, batch, pauses);
    let pauses2 = pauses.clone();
    let body: crate::rt::Body = Arc::new(move || {
        let env = Layout::Local(p).env(0);
        let (tx, source) = ChannelSource::<i64>::new(4);
        let mut s: DS<i64> = erase(env.stream(source).batch_mode(batch));
        if let Some(left) = merged {
            let side = env.stream_iter(vec![SIDE].into_iter()).batch_mode(batch);
            s = if left { erase(side.merge(s)) } else { erase(s.merge(side)) };
        }
        for d in 0..depth {
            s = if d % 2 == 0 { erase(s.shuffle().map(|x| x + 1)) } else { erase(s.group_by(|x: &i64| x % 2).map(|(_, x)| x + 1).drop_key()) };
        }
        let rx = s.collect_channel();
        let job = thread::spawn(move || env.execute_blocking());
        // feed
        let mut sent_at = vec![];
        for (i, pause) in pauses2.iter().enumerate() {
            if *pause > 0 {
                thread::sleep(Duration::from_millis(*pause));
            }
            sent_at.push(RT.now());
            tx.send(i as i64 * 100).unwrap();
        }
        // the sender stays idle and open. With an adaptive mode every element must come out on
        // its own: the harness waits without any timer of its own, so an element that is
        // withheld leaves every task blocked - which the engine reports as a deadlock.
        if adaptive {
            for _ in 0..pauses2.len() + merged.is_some() as usize {
                match rx.recv() {
                    Ok(v) if v >= SIDE => log(Ev::Note("arrival", vec![v, 0])),
                    Ok(v) => {
                        let idx = ((v - (depth as i64)) / 100) as usize;
                        let lat = RT.now().saturating_sub(sent_at[idx.min(sent_at.len() - 1)]);
                        log(Ev::Note("arrival", vec![v, lat.as_millis() as i64]));
                    }
                    Err(_) => {
                        log(Ev::Note("sink-closed-early", vec![]));
                        break;
                    }
                }
            }
        }
        // close the source: everything must come out now, whatever the batch mode
        drop(tx);
        let mut rest = vec![];
        while let Ok(v) = rx.recv() {
            rest.push(v);
        }
        log(Ev::Note("after-close", rest));
        let r = job.join();
        if r.is_err() {
            log(Ev::Note("job-panicked", vec![]));
        }
    });
    let d2 = descr.clone();
    let check: Check = Arc::new(move |r| {
        match &r.status {
            Status::Done => {}
            Status::Deadlock(b) => {
                let arrived = r.log.iter().filter(|e| matches!(e, Ev::Note("arrival", _))).count();
                return Err(Fail::new(
                    "c18-withheld",
                    format!("{d2}: only {arrived} of {k} elements reached the sink while the source stayed open and idle: every task is blocked and no timer is pending ({b})"),
                ));
            }
            other => return Err(Fail::new("c18-abnormal", format!("{d2}: {:?}", other))),
        }
        let mut got: Vec<i64> = vec![];
        for e in &r.log {
            match e {
                Ev::Note("sink-closed-early", _) | Ev::Note("job-panicked", _) => return Err(Fail::new("c18-job-failed", format!("{d2}: job failed"))),
                Ev::Note("arrival", v) => {
                    got.push(v[0]);
                    // block boundaries = depth + 1 (collect_channel adds one); every explored
                    // deviation may be an early timer firing that lets one max_delay pass idly
                    // (merging adds one: the two-input block sits behind the source's block)
                    let limit = ((2 * (depth as u64 + 1 + merged.is_some() as u64) + bound as u64) * DELTA_MS) as i64;
                    if v[1] > limit {
                        return Err(Fail::new("c18-latency", format!("{d2}: element {} reached the sink {} ms (virtual) after it was handed to the source, more than (2 x boundaries + deviations) x max_delay = {limit} ms", v[0], v[1])));
                    }
                }
                Ev::Note("after-close", v) => got.extend(v.iter().copied()),
                _ => {}
            }
        }
        got.sort();
        let mut exp: Vec<i64> = (0..k as i64).map(|i| i * 100 + depth as i64).collect();
        if merged.is_some() {
            exp.push(SIDE + depth as i64);
        }
        if got != exp {
            return Err(Fail::new("c18-result", format!("{d2}: sink received {:?}, expected {:?}", got, exp)));
        }
        Ok(hash_of(&r.log.iter().filter(|e| matches!(e, Ev::Note("arrival", _))).collect::<Vec<_>>()))
    });
    Scenario {
        name,
        descr,
        params: EnvParams { random_arity: p as usize, ..Default::default() },
        body,
        check,
        bound,
        orders: ORDERS3.to_vec(),
        max_execs: 0,
        shards: 1,
        nontrivial: adaptive,
        unbounded: false,
        loop_body: false,
        sometimes: vec![],
    }
}

fn build(tier: Tier) -> Vec<Scenario> {
    let mut out = vec![];
    let d = Duration::from_millis(DELTA_MS);
    let modes = vec![BatchMode::adaptive(2, d), BatchMode::adaptive(1024, d), BatchMode::fixed(1024), BatchMode::fixed(2), BatchMode::single()];
    let pause_sets: Vec<Vec<u64>> = if tier == Tier::Quick {
        vec![vec![0], vec![0, 0, 0], vec![0, 25, 150]]
    } else {
        vec![vec![0], vec![25], vec![0, 0], vec![0, 150], vec![0, 0, 0], vec![0, 25, 150], vec![150, 0, 25]]
    };
    let bound = if tier == Tier::Quick { 1 } else { 2 };
    for depth in 1..=3usize {
        for m in &modes {
            for ps in &pause_sets {
                for p in [1u64, 2] {
                    if tier == Tier::Quick && p == 2 && depth == 3 {
                        continue;
                    }
                    out.push(scenario(depth, *m, ps.clone(), p, bound));
                }
            }
        }
    }
    // the channel source behind a two-input block whose other input has ended
    for left in [false, true] {
        for depth in 1..=2usize {
            for m in &modes {
                for ps in &pause_sets {
                    if tier == Tier::Quick && (depth == 2 && !matches!(m, BatchMode::Adaptive(..))) {
                        continue;
                    }
                    out.push(scenario_m(depth, *m, ps.clone(), 1, bound, Some(left)));
                }
            }
        }
    }
    // whatever the batch mode, a round's elements are delivered when the round ends: loops
    // (whose next round waits for the previous one's elements) end with the sequential result
    {
        use crate::program::Instr::*;
        use crate::props::common::{program_scenario, JobCfg, SrcKind};
        for m in &modes {
            for prog in [vec![Shuffle, Replay(2, vec![Shuffle, Map])], vec![Shuffle, Iterate(2, vec![Shuffle, Filter])], vec![Replay(2, vec![GbSum])]] {
                let cfg = JobCfg { layout: Layout::Local(2), batch: *m, capacity: 0 };
                out.push(program_scenario("C18/round-end", &prog, &[1, 2, 3, 4], SrcKind::Par(vec![0, 1, 0, 1]), &cfg, if tier == Tier::Quick { 0 } else { 1 }, &ORDERS3, "c18-round-end:".to_string()));
            }
        }
    }
    if tier == Tier::Quick {
        crate::props::common::deepen(&mut out, &|n| (n.contains("/depth1/") || n.contains("/depth2/")) && n.contains("Adaptive") && n.ends_with("/p1"));
    }
    out
}

pub fn spec() -> PropSpec {
    PropSpec {
        id: "C18",
        build,
        rule: "channel source fed by the harness task (1-3 elements after pauses of 0, max_delay/2 or 3 x max_delay of virtual time), which then keeps the sender open and idle; 1-3 block boundaries (shuffle / group_by), parallelism 1-2; adaptive modes (size 2 and 1024, max_delay 50 ms): every element must reach the collect_channel sink while the source is still open, within 2 x depth x max_delay of virtual time; all modes (adaptive, fixed 2 / 1024, single): after the source is closed the sink has received exactly the sent elements; virtual timers fire when every task waits, or early as a deviation; the same with the channel source merged (on either side) with a bounded stream that has already ended; loops (replay / iterate with a shuffle in the body) under every batch mode end with the sequential result (a round's buffered elements are delivered when the round ends); every schedule within the deviation bound under three canonical orders; non-trivial = adaptive mode",
        assumptions: &["virtual time: the latency claim is about timer order and count, not OS latency", "deviation bound as reported"],
        exhaustive_when_uncapped: false,
        budget_s: (55, 1200),
    }
}
