//! C08: joins output exactly the relational join, whatever the arrival order.
use std::sync::Arc;

use renoir::operator::StreamElement;
use renoir::{Replication, RuntimeConfig, StreamContext};

use crate::driver::{PropSpec, Tier};
use crate::e2::{drive_binary, select_scenario, sequences, singleton_batches, El};
use crate::explore::{Fail, Scenario};
use crate::kit::ScriptSource;

type Pair = (Option<i64>, Option<i64>);

#[derive(Clone, Copy, Debug, PartialEq, Eq)]
enum Variant {
    Inner,
    Left,
    Outer,
}

#[derive(Clone, Copy, Debug, PartialEq, Eq)]
enum Algo {
    Hash,
    SortMerge,
    Keyed,
    BroadcastHash,
    BroadcastSortMerge,
}

/// Elements are (key, id); the reference is the nested-loop join on the key.
fn reference(l: &[(i64, i64)], r: &[(i64, i64)], v: Variant) -> Vec<Pair> {
    let mut out = vec![];
    for a in l {
        let mut m = false;
        for b in r {
            if a.0 == b.0 {
                m = true;
                out.push((Some(a.1), Some(b.1)));
            }
        }
        if !m && v != Variant::Inner {
            out.push((Some(a.1), None));
        }
    }
    if v == Variant::Outer {
        for b in r {
            if !l.iter().any(|a| a.0 == b.0) {
                out.push((None, Some(b.1)));
            }
        }
    }
    out.sort();
    out
}

fn run_join(l: &[(i64, i64)], r: &[(i64, i64)], v: Variant, a: Algo) -> Vec<El<Pair>> {
    let env = StreamContext::new(RuntimeConfig::local(1).unwrap());
    let s1 = env.stream(ScriptSource::<(i64, i64)>::new(vec![], Replication::One));
    let s2 = env.stream(ScriptSource::<(i64, i64)>::new(vec![], Replication::One));
    let lb = singleton_batches(&l.iter().map(|x| StreamElement::Item(*x)).collect::<Vec<_>>());
    let rb = singleton_batches(&r.iter().map(|x| StreamElement::Item(*x)).collect::<Vec<_>>());
    let k = |x: &(i64, i64)| x.0;
    macro_rules! go {
        ($j:expr) => {
            match v {
                Variant::Inner => drive_binary($j.inner().map(|(_, (l, r))| (Some(l.1), Some(r.1))).0.verif_into_chain(), vec![lb], vec![rb]),
                Variant::Left => drive_binary($j.left().map(|(_, (l, r))| (Some(l.1), r.map(|x| x.1))).0.verif_into_chain(), vec![lb], vec![rb]),
                Variant::Outer => drive_binary($j.outer().map(|(_, (l, r))| (l.map(|x| x.1), r.map(|x| x.1))).0.verif_into_chain(), vec![lb], vec![rb]),
            }
        };
    }
    macro_rules! go_bc {
        ($j:expr) => {
            match v {
                Variant::Inner => drive_binary($j.inner().map(|(_, (l, r))| (Some(l.1), Some(r.1))).verif_into_chain(), vec![lb], vec![rb]),
                _ => drive_binary($j.left().map(|(_, (l, r))| (Some(l.1), r.map(|x| x.1))).verif_into_chain(), vec![lb], vec![rb]),
            }
        };
    }
    let strip = |v: Vec<El<(i64, Pair)>>| -> Vec<El<Pair>> { v.into_iter().map(|e| e.map(|(_, p)| p)).collect() };
    match a {
        Algo::Hash => strip(go!(s1.join_with(s2, k, k).ship_hash().local_hash())),
        Algo::SortMerge => strip(go!(s1.join_with(s2, k, k).ship_hash().local_sort_merge())),
        Algo::BroadcastHash => go_bc!(s1.join_with(s2, k, k).ship_broadcast_right().local_hash()),
        Algo::BroadcastSortMerge => go_bc!(s1.join_with(s2, k, k).ship_broadcast_right().local_sort_merge()),
        Algo::Keyed => {
            let (a, b) = (s1.to_keyed(), s2.to_keyed());
            match v {
                Variant::Inner => strip(drive_binary(a.join(b).map(|(_, (l, r))| (Some(l), Some(r))).0.verif_into_chain(), vec![lb], vec![rb])),
                _ => strip(drive_binary(a.join_outer(b).map(|(_, (l, r))| (l, r)).0.verif_into_chain(), vec![lb], vec![rb])),
            }
        }
    }
}

/// Many keys (more than any internal table, chunk or batch size): keys 0..1500 on the left (every
/// tenth twice), 500..2000 on the right; one interleaving per canonical answer of the select.
fn case_many_keys(v: Variant, a: Algo) -> Scenario {
    let mut l: Vec<(i64, i64)> = vec![];
    for k in 0..1500i64 {
        l.push((k, k));
        if k % 10 == 0 {
            l.push((k, 5000 + k));
        }
    }
    let r: Vec<(i64, i64)> = (500..2000i64).map(|k| (k, 10_000 + k)).collect();
    let mut s = case(l, r, v, a);
    // the default answer of every select instead of all of them
    s.params.free_kinds = vec![crate::rt::Kind::Driver];
    // (the driver fills both inputs before the operator runs)
    s.params.channel_capacity = 4000;
    s
}

fn case(l: Vec<(i64, i64)>, r: Vec<(i64, i64)>, v: Variant, a: Algo) -> Scenario {
    let big = l.len() + r.len() > 12;
    let name = if big { format!("C08/op/{:?}-{:?}/many-keys-L{}-R{}", a, v, l.len(), r.len()) } else { format!("C08/op/{:?}-{:?}/L{:?}/R{:?}", a, v, l, r).replace(' ', "") };
    let descr = if big {
        format!("{:?} {:?} join of {} left and {} right elements over 2000 keys, each in its own batch, default answers of the select", a, v, l.len(), r.len())
    } else {
        format!("{:?} {:?} join of left {:?} and right {:?} (key, id), every interleaving of the two sides' batches and end markers", a, v, l, r)
    };
    let nontrivial = !l.is_empty() && !r.is_empty();
    let mut s = select_scenario(
        name,
        descr,
        Arc::new(move || {
            let out = run_join(&l, &r, v, a);
            let mut got: Vec<Pair> = vec![];
            let mut after_far = false;
            for e in &out {
                match e {
                    StreamElement::Item(p) | StreamElement::Timestamped(p, _) => {
                        if after_far {
                            return Some(Fail::new(format!("c08-{:?}-{:?}-result-after-end", a, v), format!("{:?} {:?}: a result was emitted after the end of the iteration", a, v)));
                        }
                        got.push(*p)
                    }
                    StreamElement::FlushAndRestart => after_far = true,
                    _ => {}
                }
            }
            got.sort();
            // the keyed outer join and broadcast shipping have fewer variants
            let vv = match (a, v) {
                (Algo::Keyed, Variant::Left) => Variant::Outer,
                (Algo::BroadcastHash | Algo::BroadcastSortMerge, Variant::Outer) => Variant::Left,
                _ => v,
            };
            let exp = reference(&l, &r, vv);
            if got != exp {
                let sig = if got.len() < exp.len() { "missing" } else if got.len() > exp.len() { "extra" } else { "wrong" };
                return Some(Fail::new(
                    format!("c08-{:?}-{:?}-{sig}", a, v),
                    if big {
                        let missing: Vec<&Pair> = exp.iter().filter(|x| !got.contains(x)).take(4).collect();
                        let extra: Vec<&Pair> = got.iter().filter(|x| !exp.contains(x)).take(4).collect();
                        format!("{:?} {:?} join over many keys: got {} pairs, the relational join has {}; first missing {:?}, first unexpected {:?}", a, v, got.len(), exp.len(), missing, extra)
                    } else {
                        format!("{:?} {:?} join of L={:?} R={:?}: got {:?}, the relational join is {:?}", a, v, l, r, got, exp)
                    },
                ));
            }
            None
        }),
    );
    s.nontrivial = nontrivial;
    s
}

fn inputs(maxlen: usize) -> Vec<Vec<(i64, i64)>> {
    let mut v = vec![];
    for l in 0..=maxlen {
        sequences(2, l, |ks| v.push(ks.iter().enumerate().map(|(i, k)| (*k as i64, i as i64)).collect()));
    }
    v
}

fn build(tier: Tier) -> Vec<Scenario> {
    let mut out = vec![];
    let maxlen = match tier {
        Tier::Quick => 3,
        Tier::Thorough => 4,
    };
    let ins = inputs(maxlen);
    for a in [Algo::Hash, Algo::SortMerge, Algo::Keyed, Algo::BroadcastHash, Algo::BroadcastSortMerge] {
        for v in [Variant::Inner, Variant::Left, Variant::Outer] {
            if matches!(a, Algo::BroadcastHash | Algo::BroadcastSortMerge) && v == Variant::Outer {
                continue;
            }
            if a == Algo::Keyed && v == Variant::Left {
                continue;
            }
            for l in &ins {
                for r in &ins {
                    out.push(case(l.clone(), r.iter().map(|(k, i)| (*k, i + 10)).collect(), v, a));
                }
            }
            out.push(case_many_keys(v, a));
        }
    }
    out.extend(super::c08_jobs::scenarios(tier));
    out
}

pub fn spec() -> PropSpec {
    PropSpec {
        id: "C08",
        build,
        rule: "operator level, through the real two-input Start: every pair of input lists of <= 2 (quick) / 3 (thorough) elements over keys {0,1} (duplicates, one-sided keys, an empty side) x {inner, left, outer} x {hash-shipped hash / sort-merge, keyed-stream join, broadcast-shipped hash / sort-merge}; each element and each end marker travels in its own batch and EVERY answer of the two-way select is enumerated, i.e. every interleaving of left and right arrivals and of which side ends first; oracle = nested-loop relational join with None padding; plus one scale case per variant (1650 left and 1500 right elements over 2000 keys); plus whole jobs (hash and broadcast shipping, 2 source replicas per side, parallelism 1-2) and interval joins under schedule exploration; non-trivial = both sides non-empty",
        assumptions: &["inputs of at most 3 elements per side over 2 keys"],
        exhaustive_when_uncapped: true,
        budget_s: (50, 1500),
    }
}
