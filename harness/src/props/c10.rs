//! C10: loops compute the sequential fixed point; each round sees the previous state.
use std::collections::BTreeMap;
use std::sync::Arc;

use renoir::operator::StreamElement;
use renoir::prelude::*;
use renoir::{BatchMode, IterationStateHandle, Replication};

use crate::driver::{PropSpec, Tier};
use crate::explore::{hash_of, Check, Fail, Scenario};
use crate::kit::{erase, log_sink, probe, run_hosts, sink_rows, Layout, ScriptSource, DS};
use crate::props::common::ORDERS3;
use crate::rt::{log, EnvParams, Ev, Status};

#[derive(Clone, Copy, Debug, PartialEq, Eq)]
enum BodyKind {
    /// map(x + state)
    MapState,
    /// shuffle, then map(x + state)
    ShuffleMapState,
    /// a single-replica stage (replication One, identity map), then shuffle and map(x + state):
    /// the parallel stage that reads the state has exactly one upstream replica, which is remote
    /// for every host but one
    OneShuffleMapState,
    /// group_by(x%2).reduce(+) then map(v + state)
    GroupReduceState,
    /// an inner replay (2 rounds, own state) whose result is added to the outer state
    Nested,
    /// an inner replay (at most 3 rounds, stopped by its condition `state < 40`) whose body reads
    /// the INNER state; its final state goes on to a map reading the outer state
    NestedInnerState,
    /// like `NestedInnerState`, but the elements entering the inner loop depend on the outer
    /// state (x when it is 0, x % 3 afterwards), so that the inner loop is stopped by its
    /// condition in one outer round and needs its full bound in the next
    NestedCondStop,
    /// like `NestedInnerState`, with a shuffle inside the inner body: the block that reads the
    /// inner state is not the inner loop's head, it waits on the state lock of its host
    NestedShuffleInner,
}

#[derive(Clone, Copy, Debug, PartialEq, Eq)]
enum LoopKind {
    Replay,
    Iterate,
}

const PROBE_ID: u32 = 42;

/// The loop body. Every state read is logged right after the probe event of its element, so the
/// round of a read is the number of end-of-iteration markers the same replica saw before it.
fn body(s: DS<i64>, state: IterationStateHandle<i64>, kind: BodyKind) -> DS<i64> {
    let st2 = state.clone();
    let read = move |x: i64| {
        let st = *state.get();
        log(Ev::Note("state-read", vec![st, x]));
        (x + st) % 1000
    };
    match kind {
        BodyKind::MapState => erase(probe(s, PROBE_ID).map(read)),
        BodyKind::ShuffleMapState => erase(probe(s.shuffle(), PROBE_ID).map(read)),
        BodyKind::OneShuffleMapState => erase(probe(s.replication(renoir::Replication::One).map(|x| x).shuffle(), PROBE_ID).map(read)),
        BodyKind::GroupReduceState => erase(probe(erase(s.group_by(|x: &i64| x % 2).reduce(|a, b| *a += b).drop_key()), PROBE_ID).map(read)),
        BodyKind::Nested => {
            let inner = s.shuffle().replay(
                2,
                0i64,
                |s, _st| s.map(|x| x + 1),
                |d: &mut i64, x: i64| *d += x,
                |st: &mut i64, d: i64| *st += d,
                |_: &mut i64| true,
            );
            erase(probe(inner, PROBE_ID).map(read))
        }
        BodyKind::NestedInnerState | BodyKind::NestedCondStop | BodyKind::NestedShuffleInner => {
            let inner_shuffle = kind == BodyKind::NestedShuffleInner;
            let premap = kind == BodyKind::NestedCondStop;
            let s = erase(s.map(move |x| if premap && *st2.get() != 0 { x % 3 } else { x }));
            let inner = s.shuffle().replay(
                3,
                0i64,
                move |s, ist| {
                    let s: DS<i64> = if inner_shuffle { erase(s.shuffle()) } else { erase(s) };
                    s.map(move |x| {
                        let st = *ist.get();
                        log(Ev::Note("inner-state-read", vec![st, x]));
                        (x + st) % 1000
                    })
                },
                |d: &mut i64, x: i64| *d += x,
                |st: &mut i64, d: i64| *st += d,
                |st: &mut i64| *st < 40,
            );
            erase(probe(inner, PROBE_ID).map(read))
        }
    }
}

/// The inner loop of `NestedInnerState` run sequentially over `cur`: (reads (state, x), final state).
fn inner_reference(cur: &[i64]) -> (Vec<(i64, i64)>, i64) {
    let mut st = 0i64;
    let mut reads = vec![];
    for _ in 0..3 {
        let mut delta = 0;
        for x in cur {
            reads.push((st, *x));
            delta += (x + st) % 1000;
        }
        st += delta;
        if !(st < 40) {
            break;
        }
    }
    (reads, st)
}

/// Sequential reference: (states s_0..s_k, final output elements of iterate).
fn reference(input: &[i64], kind: BodyKind, lk: LoopKind, max: usize, limit: i64) -> (Vec<i64>, Vec<i64>) {
    let mut states = vec![0i64];
    let mut cur: Vec<i64> = input.to_vec();
    loop {
        let st = *states.last().unwrap();
        let base: Vec<i64> = match kind {
            BodyKind::MapState | BodyKind::ShuffleMapState | BodyKind::OneShuffleMapState => cur.clone(),
            BodyKind::GroupReduceState => {
                let mut m: BTreeMap<i64, i64> = BTreeMap::new();
                for x in &cur {
                    *m.entry(x.rem_euclid(2)).or_insert(0) += x;
                }
                m.values().copied().collect()
            }
            BodyKind::Nested => {
                // inner replay: 2 rounds of sum(x+1) over the same input
                if cur.is_empty() {
                    vec![0]
                } else {
                    vec![2 * cur.iter().map(|x| x + 1).sum::<i64>()]
                }
            }
            BodyKind::NestedInnerState | BodyKind::NestedShuffleInner => vec![inner_reference(&cur).1],
            BodyKind::NestedCondStop => {
                let c2: Vec<i64> = cur.iter().map(|x| if st != 0 { x % 3 } else { *x }).collect();
                vec![inner_reference(&c2).1]
            }
        };
        let out: Vec<i64> = base.iter().map(|x| (x + st) % 1000).collect();
        let next = st + out.iter().sum::<i64>();
        states.push(next);
        if lk == LoopKind::Iterate {
            cur = out;
        }
        let rounds = states.len() - 1;
        if !(next < limit) || rounds >= max {
            break;
        }
    }
    let mut fin = cur;
    fin.sort();
    (states, fin)
}

#[allow(clippy::too_many_arguments)]
fn scenario(lk: LoopKind, kind: BodyKind, input: Vec<i64>, max: usize, limit: i64, layout: Layout, batch: BatchMode, bound: usize) -> Scenario {
    let name = format!("C10/{:?}-{:?}/in{:?}/max{max}-limit{limit}/{}/{:?}", lk, kind, input, layout.name(), batch).replace(' ', "");
    let descr = format!("{:?} with body {:?} over {:?}, at most {max} rounds, continues while state < {limit}, layout {}, batch mode {:?}", lk, kind, input, layout.name(), batch);
    let cores = layout.total_cores() as usize;
    let (input2, layout2) = (input.clone(), layout.clone());
    let body_fn: crate::rt::Body = Arc::new(move || {
        let input3 = input2.clone();
        let res = run_hosts(
            &layout2,
            Arc::new(move |host, env| {
                let mut scripts = vec![vec![]; cores];
                for (i, x) in input3.iter().enumerate() {
                    scripts[i % cores].push(StreamElement::Item(*x));
                }
                let s = env.stream(ScriptSource::new(scripts, Replication::Unlimited)).batch_mode(batch);
                match lk {
                    LoopKind::Replay => {
                        let out = s
                            .replay(
                                max,
                                0i64,
                                move |s, st| body(erase(s), st, kind),
                                |d: &mut i64, x: i64| *d += x,
                                |st: &mut i64, d: i64| *st += d,
                                move |st: &mut i64| *st < limit,
                            )
                            .collect_vec();
                        env.execute_blocking();
                        log_sink("state", host, out.get());
                    }
                    LoopKind::Iterate => {
                        let (st, out) = s.iterate(
                            max,
                            0i64,
                            move |s, st| body(erase(s), st, kind),
                            |d: &mut i64, x: i64| *d += x,
                            |st: &mut i64, d: i64| *st += d,
                            move |st: &mut i64| *st < limit,
                        );
                        let st = st.collect_vec();
                        let out = out.collect_vec();
                        env.execute_blocking();
                        log_sink("state", host, st.get());
                        log_sink("output", host, out.get());
                    }
                }
            }),
        );
        for (h, r) in res.into_iter().enumerate() {
            if let Some(p) = r {
                log(Ev::Text("host-panic", format!("{h}: {p}")));
            }
        }
    });
    let (states, fin) = reference(&input, kind, lk, max, limit);
    // every read of the inner state the sequential nested loop performs, over all outer rounds
    let mut inner_expected: Vec<(i64, i64)> = vec![];
    if matches!(kind, BodyKind::NestedInnerState | BodyKind::NestedCondStop | BodyKind::NestedShuffleInner) {
        let mut cur = input.clone();
        for st in states.iter().take(states.len() - 1) {
            let c2: Vec<i64> = cur.iter().map(|x| if kind == BodyKind::NestedCondStop && *st != 0 { x % 3 } else { *x }).collect();
            let (reads, fin_in) = inner_reference(&c2);
            inner_expected.extend(reads);
            if lk == LoopKind::Iterate {
                cur = vec![(fin_in + st) % 1000];
            }
        }
        inner_expected.sort();
    }
    let d2 = descr.clone();
    let tagk = format!("{:?}-{:?}", lk, kind);
    let check: Check = Arc::new(move |r| {
        match &r.status {
            Status::Done => {}
            Status::Deadlock(b) => return Err(Fail::new(format!("c10-{tagk}-deadlock"), format!("{d2}: deadlock, blocked: {b}"))),
            other => return Err(Fail::new(format!("c10-{tagk}-abnormal"), format!("{d2}: {:?}", other))),
        }
        for e in &r.log {
            if let Ev::Text("host-panic", t) = e {
                return Err(Fail::new(format!("c10-{tagk}-panic"), format!("{d2}: {t}")));
            }
            if let Ev::Race(t) = e {
                return Err(Fail::new(format!("c10-{tagk}-state-race"), format!("{d2}: unsynchronised access to the loop state: {t}")));
            }
        }
        // every state read, with the round deduced from the probe of the same replica
        let mut fars: BTreeMap<(u64, u64, u64), usize> = BTreeMap::new();
        let mut last_probe: Option<(u64, u64, u64)> = None;
        let mut reads = 0;
        for e in &r.log {
            match e {
                Ev::Probe(PROBE_ID, c, k, _, _) => {
                    if *k == crate::kit::K_FAR {
                        *fars.entry(*c).or_insert(0) += 1;
                    } else if *k <= 1 {
                        last_probe = Some(*c);
                    }
                }
                Ev::Note("state-read", v) => {
                    let c = last_probe.take().ok_or_else(|| Fail::new("c10-harness", "state read without a probe event"))?;
                    let round = fars.get(&c).copied().unwrap_or(0);
                    reads += 1;
                    let expected = states.get(round).copied();
                    if expected != Some(v[0]) {
                        let older = states[..round.min(states.len())].contains(&v[0]);
                        let sig = if older { "stale-state" } else if states.contains(&v[0]) { "premature-state" } else { "wrong-state" };
                        return Err(Fail::new(
                            format!("c10-{tagk}-{sig}"),
                            format!("{d2}: replica {:?} in round {} read state {} for element {}, the sequential loop has {:?} there (states {:?})", c, round + 1, v[0], v[1], expected, states),
                        ));
                    }
                }
                _ => {}
            }
        }
        if matches!(kind, BodyKind::NestedInnerState | BodyKind::NestedCondStop | BodyKind::NestedShuffleInner) {
            let mut got: Vec<(i64, i64)> = r
                .log
                .iter()
                .filter_map(|e| if let Ev::Note("inner-state-read", v) = e { Some((v[0], v[1])) } else { None })
                .collect();
            got.sort();
            if got != inner_expected {
                return Err(Fail::new(
                    format!("c10-{tagk}-inner-loop-state"),
                    format!("{d2}: the inner loop's body read (inner state, element) {:?}; a sequential nested loop reads {:?}", got, inner_expected),
                ));
            }
        }
        let (n, rows) = sink_rows(&r.log, "state");
        let fin_state = *states.last().unwrap();
        if n != 1 || rows.as_ref().map(|r| r.len()) != Some(1) || rows.as_ref().unwrap()[0][0] != fin_state {
            return Err(Fail::new(format!("c10-{tagk}-final-state"), format!("{d2}: final state rows {:?} (published {n} times), sequential loop ends with {fin_state} after {} rounds (states {:?})", rows, states.len() - 1, states)));
        }
        if lk == LoopKind::Iterate {
            let (n, rows) = sink_rows(&r.log, "output");
            let got: Vec<i64> = rows.unwrap_or_default().into_iter().map(|r| r[0]).collect();
            if n != 1 || got != fin {
                return Err(Fail::new(format!("c10-{tagk}-output"), format!("{d2}: iterate emitted {:?}, the last round's elements are {:?}", got, fin)));
            }
        }
        Ok(hash_of(&(reads, r.trace.len())))
    });
    Scenario {
        name,
        descr,
        params: EnvParams { random_arity: cores, ..Default::default() },
        body: body_fn,
        check,
        bound,
        orders: ORDERS3.to_vec(),
        max_execs: 0,
        shards: 1,
        nontrivial: !input.is_empty() && max >= 2,
        unbounded: false,
        loop_body: false,
        sometimes: vec![],
    }
}

fn build(tier: Tier) -> Vec<Scenario> {
    let mut out = vec![];
    let bound: usize = if tier == Tier::Quick { 1 } else { 2 };
    let layouts: Vec<Layout> = if tier == Tier::Quick {
        vec![Layout::Local(1), Layout::Local(2), Layout::Remote(vec![1, 1])]
    } else {
        vec![Layout::Local(1), Layout::Local(2), Layout::Local(3), Layout::Remote(vec![1, 1]), Layout::Remote(vec![2, 1])]
    };
    for lk in [LoopKind::Replay, LoopKind::Iterate] {
        for kind in [BodyKind::MapState, BodyKind::ShuffleMapState, BodyKind::OneShuffleMapState, BodyKind::GroupReduceState, BodyKind::Nested, BodyKind::NestedInnerState, BodyKind::NestedCondStop, BodyKind::NestedShuffleInner] {
            for layout in &layouts {
                let remote = layout.hosts() > 1;
                for (input, max, limit) in [
                    (vec![1i64, 2, 3], 3usize, 1_000_000i64),
                    (vec![5], 2, 1_000_000),
                    (vec![1, 2], 3, 10),  // the condition stops the loop before the bound
                    (vec![], 2, 1_000_000),
                    (vec![4, 7], 0, 1_000_000),
                    (vec![20, 25], 3, 1_000_000),
                ] {
                    if (kind == BodyKind::NestedCondStop) != (input == vec![20, 25]) {
                        continue;
                    }
                    if tier == Tier::Quick && remote && (input.len() != 3) {
                        continue;
                    }
                    let b = if remote { bound.saturating_sub(1) } else { bound };
                    out.push(scenario(lk, kind, input, max, limit, layout.clone(), BatchMode::fixed(1), b));
                }
            }
        }
    }
    out
}

pub fn spec() -> PropSpec {
    PropSpec {
        id: "C10",
        build,
        rule: "replay and iterate x loop bodies {map reading the state, shuffle then map reading the state, group_by+reduce then map reading the state, nested replay} x inputs (empty, 1-3 elements) x iteration bounds 0..3 and a condition that stops the loop early x layouts (local 1-3, remote 1+1 and 2+1 so that the state broadcast crosses hosts): every state read of every replica is logged with its round (deduced from the end-of-iteration markers the same replica saw) and must equal the state the sequential loop has in that round; final state, number of rounds and iterate's output must match; the vector-clock race detector watches the UnsafeCell loop state; schedules within the deviation bound under three canonical orders; non-trivial = non-empty input and at least 2 rounds",
        assumptions: &["deviation bound as reported; body functions fixed"],
        exhaustive_when_uncapped: false,
        budget_s: (55, 1500),
    }
}
