//! C14: processing-time and session windows conserve elements whatever the timing.
use std::sync::Arc;
use std::time::Duration;

use renoir::operator::window::{ProcessingTimeWindow, SessionWindow};
use renoir::operator::StreamElement;
use renoir::{Replication, RuntimeConfig, StreamContext};

use crate::driver::{PropSpec, Tier};
use crate::e2::{drive, loop_scenario, sequences, El};
use crate::explore::{Fail, Scenario};
use crate::kit::ScriptSource;

#[derive(Clone, Copy, Debug, PartialEq)]
enum Win {
    Proc { size: u64, slide: u64 },
    Session { gap: u64 },
}

/// steps: (delay before the element in ms, key); `far_at`: positions after which an end of
/// iteration is inserted.
fn check_case(win: Win, steps: &[(u64, i64)], far_after: Option<usize>) -> Option<Fail> {
    let mut script: Vec<El<(i64, i64)>> = vec![];
    let mut delays = vec![];
    let mut iter_of = vec![];
    let mut it = 0;
    for (i, (d, k)) in steps.iter().enumerate() {
        script.push(StreamElement::Item((*k, i as i64)));
        delays.push(*d);
        iter_of.push(it);
        if far_after == Some(i) {
            script.push(StreamElement::FlushAndRestart);
            delays.push(0);
            it += 1;
        }
    }
    let env = StreamContext::new(RuntimeConfig::local(1).unwrap());
    let s = env
        .stream(ScriptSource::new(vec![script], Replication::One).timed(delays))
        .to_keyed();
    let out = match win {
        Win::Proc { size, slide } => drive(
            s.window(ProcessingTimeWindow::sliding(
                Duration::from_millis(size),
                Duration::from_millis(slide),
            ))
            .map(|v: Vec<i64>| v)
            .0
            .verif_into_chain()
            .chain,
        ),
        Win::Session { gap } => drive(
            s.window(SessionWindow::new(Duration::from_millis(gap)))
                .map(|v: Vec<i64>| v)
                .0
                .verif_into_chain()
                .chain,
        ),
    };
    let descr = || format!("{:?} steps (delay ms, key) {:?} end-of-iteration after #{:?}", win, steps, far_after);
    let mut covered = vec![0u64; steps.len()];
    let mut per_key_concat: std::collections::BTreeMap<i64, Vec<i64>> = Default::default();
    let mut out_iter = 0;
    for e in &out {
        match e {
            StreamElement::Item((k, ids)) | StreamElement::Timestamped((k, ids), _) => {
                if ids.is_empty() {
                    return Some(Fail::new("c14-empty-result", format!("{}: empty result", descr())));
                }
                for &id in ids {
                    let id = id as usize;
                    if steps[id].1 != *k {
                        return Some(Fail::new("c14-mixed-keys", format!("{}: result of key {k} holds element #{id}", descr())));
                    }
                    if iter_of[id] != out_iter {
                        return Some(Fail::new("c14-not-flushed", format!("{}: element #{id} of iteration {} emitted in iteration {out_iter}", descr(), iter_of[id])));
                    }
                    covered[id] += 1;
                }
                if ids.windows(2).any(|w| w[1] <= w[0]) {
                    return Some(Fail::new("c14-order", format!("{}: result {:?} does not keep arrival order", descr(), ids)));
                }
                per_key_concat.entry(*k).or_default().extend(ids.iter().copied());
            }
            StreamElement::FlushAndRestart => out_iter += 1,
            _ => {}
        }
    }
    let (lo, hi) = match win {
        Win::Proc { size, slide } if slide < size => (1, (size + slide - 1) / slide),
        _ => (1, 1),
    };
    for (i, c) in covered.iter().enumerate() {
        if *c < lo {
            return Some(Fail::new("c14-lost-element", format!("{}: element #{i} is in no result", descr())));
        }
        if *c > hi {
            return Some(Fail::new("c14-duplicated-element", format!("{}: element #{i} is in {c} results (max {hi})", descr())));
        }
    }
    if hi == 1 {
        // partition: per key the concatenation of the results is the arrival sequence
        for (k, ids) in &per_key_concat {
            let arrival: Vec<i64> = (0..steps.len() as i64).filter(|i| steps[*i as usize].1 == *k).collect();
            if *ids != arrival {
                return Some(Fail::new("c14-order", format!("{}: key {k} results concatenate to {:?}, arrival order is {:?}", descr(), ids, arrival)));
            }
        }
    }
    None
}

fn build(tier: Tier) -> Vec<Scenario> {
    let len = match tier {
        Tier::Quick => 5,
        Tier::Thorough => 6,
    };
    let mut wins = vec![];
    for size in [2u64, 3] {
        for slide in 1..=size {
            wins.push(Win::Proc { size, slide });
        }
    }
    wins.push(Win::Session { gap: 2 });
    wins.push(Win::Session { gap: 3 });
    let mut out = vec![];
    for win in wins {
        let unit = match win {
            Win::Proc { size, .. } => size,
            Win::Session { gap } => gap,
        };
        let deltas = vec![0, 1, unit - 1, unit, unit + 1, 3 * unit];
        out.push(loop_scenario(
            format!("C14/{:?}/len{len}", win).replace(' ', ""),
            format!("all sequences of <= {len} steps (advance the clock by one of {:?} ms, then an element of key 0/1), every position of one end of iteration, window {:?}", deltas, win),
            Arc::new(move || {
                let mut cases = 0;
                let mut nontrivial = 0;
                let mut fail = None;
                let nd = deltas.len();
                for l in 1..=len {
                    sequences(nd * 2, l, |h| {
                        if fail.is_some() {
                            return;
                        }
                        let steps: Vec<(u64, i64)> = h.iter().map(|x| (deltas[x % nd], (x / nd) as i64)).collect();
                        for far in std::iter::once(None).chain((0..l.saturating_sub(1)).map(Some)) {
                            cases += 1;
                            if steps.iter().any(|s| s.0 >= unit) && steps.iter().any(|s| s.0 == 0) {
                                nontrivial += 1;
                            }
                            if fail.is_none() {
                                fail = check_case(win, &steps, far);
                            }
                        }
                    });
                }
                (cases, nontrivial, fail)
            }),
        ));
    }
    out
}

pub fn spec() -> PropSpec {
    PropSpec {
        id: "C14",
        build,
        rule: "virtual clock owned by the driver: ALL sequences up to the length bound of steps (advance by d in {0, 1, size-1, size, size+1, 3*size} ms, then an element of one of two keys), with one end of iteration at every position, through the real keyed processing-time (size 2..3 ms, slide 1..size) and session (gap 2..3 ms) window operators; oracle = per key partition in arrival order, no empty result, coverage 1..ceil(size/slide) for sliding, everything flushed before the end of its iteration; non-trivial = sequence with both a burst (delay 0) and a pause >= the window",
        assumptions: &["time is the virtual clock of the model: the claim is about timer order, not OS latency", "sequences up to the stated length"],
        exhaustive_when_uncapped: true,
        budget_s: (50, 900),
    }
}
