//! C15: parallel sources split their input exactly once across replicas.
use std::ops::Range;
use std::sync::Arc;

use renoir::operator::source::{CsvSource, FileSource, IntoParallelSource};
use renoir::operator::{Operator, StreamElement};
use renoir::verif::testkit::with_metadata;
use renoir::BatchMode;

use crate::driver::{PropSpec, Tier};
use crate::e2::{drive, loop_scenario, sequences};
use crate::explore::{Fail, Scenario};

fn scratch_file(tag: &str) -> std::path::PathBuf {
    let dir = if std::path::Path::new("/dev/shm").is_dir() {
        std::path::PathBuf::from("/dev/shm")
    } else {
        std::env::temp_dir()
    };
    dir.join(format!("nv-c15-{}-{}", std::process::id(), tag))
}

fn run_source<S: Operator>(mut src: S, global_id: u64, replicas: u64) -> Result<Vec<S::Out>, String> {
    std::panic::catch_unwind(std::panic::AssertUnwindSafe(|| {
        with_metadata(0, global_id, replicas, BatchMode::fixed(1024), |m| src.setup(m));
        let mut out = vec![];
        let mut seen_far = false;
        for _ in 0..10_000 {
            match src.next() {
                StreamElement::Item(x) | StreamElement::Timestamped(x, _) => {
                    assert!(!seen_far, "item after end of iteration");
                    out.push(x)
                }
                StreamElement::FlushAndRestart => seen_far = true,
                StreamElement::Terminate => return out,
                _ => {}
            }
        }
        panic!("source did not terminate");
    }))
    .map_err(|p| crate::kit::panic_text(&p))
}

/// Long texts are shown as their length and ends.
fn brief(s: &str) -> String {
    if s.len() <= 40 {
        format!("{:?}", s)
    } else {
        format!("<{} bytes: {:?}..{:?}>", s.len(), &s[..4], &s[s.len() - 4..])
    }
}

fn brief_all(v: &[String]) -> String {
    format!("[{}]", v.iter().map(|s| brief(s)).collect::<Vec<_>>().join(", "))
}

fn check_file(content: &[u8], path: &std::path::Path, max_replicas: u64) -> Option<Fail> {
    std::fs::write(path, content).unwrap();
    let full = String::from_utf8(content.to_vec()).unwrap();
    let mut expected: Vec<String> = full.split_inclusive('\n').map(|s| s.to_string()).collect();
    let text = if full.len() <= 40 { full.clone() } else { format!("with lines {}", brief_all(&expected)) };
    expected.sort();
    for n in 1..=max_replicas {
        let mut got: Vec<String> = vec![];
        for g in 0..n {
            match run_source(FileSource::new(path), g, n) {
                Ok(v) => got.extend(v),
                Err(p) => {
                    return Some(Fail::new(
                        "c15-file-panic",
                        format!("FileSource content {:?} replicas {n} replica {g}: panic {p}", text),
                    ))
                }
            }
        }
        got.sort();
        if got != expected {
            let sig = if got.len() > expected.len() {
                "c15-file-duplicate"
            } else if got.len() < expected.len() {
                "c15-file-skipped"
            } else {
                "c15-file-partial"
            };
            return Some(Fail::new(
                sig,
                format!("FileSource content {:?} with {n} replicas emitted {}, the lines are {}", text, brief_all(&got), brief_all(&expected)),
            ));
        }
    }
    None
}

/// Whole-file parse with the csv crate itself: None if the content is not a valid CSV for the
/// default dialect (then it is outside the property's domain).
fn csv_reference(content: &[u8], headers: bool) -> Option<Vec<Vec<String>>> {
    let mut rdr = csv::ReaderBuilder::new().has_headers(headers).from_reader(content);
    let mut out = vec![];
    for r in rdr.records() {
        match r {
            Ok(rec) => out.push(rec.iter().map(|s| s.to_string()).collect::<Vec<String>>()),
            Err(_) => return None,
        }
    }
    if headers && rdr.headers().is_err() {
        return None;
    }
    Some(out)
}

fn check_csv(content: &[u8], path: &std::path::Path, headers: bool, max_replicas: u64) -> Option<Option<Fail>> {
    // CR only as part of CRLF
    for (i, b) in content.iter().enumerate() {
        if *b == b'\r' && content.get(i + 1) != Some(&b'\n') {
            return None;
        }
    }
    let mut expected = csv_reference(content, headers)?;
    if headers {
        // the header is the first line: a file that starts with an empty line has no well
        // defined header (the engine takes the empty line, the csv crate the first non-empty
        // record) - outside the statement
        if matches!(content.first(), Some(b'\n') | Some(b'\r')) {
            return None;
        }
        // the header must have the same number of fields as the records for a per-chunk reader
        let mut rdr = csv::ReaderBuilder::new().has_headers(true).from_reader(content);
        let h = rdr.headers().ok()?.len();
        if expected.iter().any(|r| r.len() != h) {
            return None;
        }
    }
    expected.sort();
    std::fs::write(path, content).unwrap();
    let text = String::from_utf8_lossy(content).to_string();
    let text = if text.len() <= 40 { text } else { format!("with records {}", expected.iter().map(|r| brief_all(r)).collect::<Vec<_>>().join(" ")) };
    let show = |v: &[Vec<String>]| v.iter().map(|r| brief_all(r)).collect::<Vec<_>>().join(" ");
    for n in 1..=max_replicas {
        let mut got: Vec<Vec<String>> = vec![];
        for g in 0..n {
            let src = CsvSource::<Vec<String>>::new(path).has_headers(headers);
            match run_source(src, g, n) {
                Ok(v) => got.extend(v),
                Err(p) => {
                    return Some(Some(Fail::new(
                        "c15-csv-panic",
                        format!("CsvSource headers={headers} content {:?} replicas {n} replica {g}: panic {p}", text),
                    )))
                }
            }
        }
        got.sort();
        if got != expected {
            return Some(Some(Fail::new(
                if got.len() > expected.len() { "c15-csv-duplicate" } else if got.len() < expected.len() { "c15-csv-skipped" } else { "c15-csv-partial" },
                format!("CsvSource headers={headers} content {:?} with {n} replicas emitted {}, the records are {}", text, show(&got), show(&expected)),
            )));
        }
    }
    Some(None)
}

/// Sub-range bounds of every replica must tile the range.
fn check_tiling(name: &str, start: i128, end: i128, parts: Vec<Result<(i128, i128), String>>, peers: u64) -> Option<Fail> {
    let descr = format!("{name} range {start}..{end} split over {peers} peers");
    let mut non_empty = vec![];
    for (i, p) in parts.iter().enumerate() {
        match p {
            Err(e) => return Some(Fail::new(format!("c15-range-panic-{name}"), format!("{descr}: replica {i} panicked: {e}"))),
            Ok((s, e)) => {
                if s < e {
                    non_empty.push((*s, *e));
                }
            }
        }
    }
    non_empty.sort();
    if start >= end {
        if !non_empty.is_empty() {
            return Some(Fail::new(format!("c15-range-not-empty-{name}"), format!("{descr}: empty/reversed range yields {:?}", non_empty)));
        }
        return None;
    }
    let mut cur = start;
    for (s, e) in &non_empty {
        if *s != cur {
            return Some(Fail::new(
                format!("c15-range-{}-{name}", if *s < cur { "overlap" } else { "gap" }),
                format!("{descr}: sub-ranges {:?}", non_empty),
            ));
        }
        cur = *e;
    }
    if cur != end {
        return Some(Fail::new(format!("c15-range-gap-{name}"), format!("{descr}: sub-ranges {:?} stop at {cur}", non_empty)));
    }
    None
}

macro_rules! range_cases {
    ($t:ty, $name:expr, $cases:ident, $fail:ident) => {{
        let mn = <$t>::MIN as i128;
        let mx = <$t>::MAX as i128;
        let mut grid: Vec<i128> = vec![mn, mn + 1, -2, -1, 0, 1, 2, 3, 7, mx - 1, mx];
        for base in [mn, -3, 0, 5] {
            for span in [1i128 << 31, 1i128 << 62, (1i128 << 62) - 1] {
                grid.push(base + span);
                grid.push(mx - span);
            }
        }
        grid.retain(|v| *v >= mn && *v <= mx);
        grid.sort();
        grid.dedup();
        for &a in &grid {
            for &b in &grid {
                for peers in 1..=9u64 {
                    if $fail.is_some() {
                        break;
                    }
                    $cases += 1;
                    let parts: Vec<Result<(i128, i128), String>> = (0..peers)
                        .map(|i| {
                            std::panic::catch_unwind(|| {
                                let r: Range<$t> = (a as $t)..(b as $t);
                                let sub = r.generate_iterator(i, peers);
                                (sub.start as i128, sub.end as i128)
                            })
                            .map_err(|p| crate::kit::panic_text(&p))
                        })
                        .collect();
                    $fail = check_tiling($name, a, b, parts, peers);
                }
            }
        }
    }};
}

fn build(tier: Tier) -> Vec<Scenario> {
    let mut out = vec![];
    let (flen, clen, freps, creps) = match tier {
        Tier::Quick => (7usize, 7usize, 6u64, 5u64),
        Tier::Thorough => (11, 11, 7, 6),
    };
    // file source: one scenario per first byte to spread over processes
    for first in 0..3usize {
        out.push(loop_scenario(
            format!("C15/file/len{flen}/first{first}"),
            format!("all file contents over {{a, LF, CR}} of length <= {flen} (contents starting with symbol {first}; the empty file with 0) x 1..={freps} replicas, FileSource driven replica by replica"),
            Arc::new(move || {
                let path = scratch_file(&format!("file{first}"));
                let sym = [b'a', b'\n', b'\r'];
                let mut cases = 0;
                let mut nontrivial = 0;
                let mut fail = None;
                if first == 0 {
                    cases += 1;
                    fail = check_file(b"", &path, freps);
                }
                for l in 1..=flen {
                    sequences(3, l - 1, |h| {
                        if fail.is_some() {
                            return;
                        }
                        let mut content = vec![sym[first]];
                        content.extend(h.iter().map(|x| sym[*x]));
                        cases += 1;
                        if content.iter().filter(|b| **b == b'\n').count() >= 2 {
                            nontrivial += 1;
                        }
                        fail = check_file(&content, &path, freps);
                    });
                }
                let _ = std::fs::remove_file(&path);
                (cases, nontrivial, fail)
            }),
        ));
    }
    // lines / records longer than the readers' internal buffers (8 KiB): 1-3 lines with lengths
    // around the buffer size, with and without a final terminator
    const LONG: [usize; 6] = [0, 1, 8191, 8192, 8193, 20000];
    for unterminated in [false, true] {
        out.push(loop_scenario(
            format!("C15/file/long-lines/unterminated{unterminated}"),
            format!("files of 1-3 lines with lengths from {:?} (last line without terminator: {unterminated}) x 1..=5 replicas, FileSource driven replica by replica", LONG),
            Arc::new(move || {
                let path = scratch_file(&format!("long{unterminated}"));
                let (mut cases, mut nontrivial, mut fail) = (0, 0, None);
                for l in 1..=3 {
                    sequences(LONG.len(), l, |h| {
                        if fail.is_some() {
                            return;
                        }
                        let mut content: Vec<u8> = vec![];
                        for (i, x) in h.iter().enumerate() {
                            content.extend(std::iter::repeat(b'a' + i as u8).take(LONG[*x]));
                            if !(unterminated && i + 1 == h.len()) {
                                content.push(b'\n');
                            }
                        }
                        cases += 1;
                        if h.iter().any(|x| LONG[*x] > 8000) {
                            nontrivial += 1;
                        }
                        fail = check_file(&content, &path, 5);
                    });
                }
                let _ = std::fs::remove_file(&path);
                (cases, nontrivial, fail)
            }),
        ));
    }
    for headers in [true, false] {
        out.push(loop_scenario(
            format!("C15/csv/long-records/headers{headers}"),
            format!("CSV files of 1-3 records of two fields whose first field has a length from {:?} (header: {headers}) x 1..=5 replicas", &LONG[1..]),
            Arc::new(move || {
                let path = scratch_file(&format!("longcsv{headers}"));
                let (mut cases, mut nontrivial, mut fail) = (0, 0, None);
                for l in 1..=3 {
                    sequences(LONG.len() - 1, l, |h| {
                        if fail.is_some() {
                            return;
                        }
                        let mut content: Vec<u8> = vec![];
                        if headers {
                            content.extend(b"h1,h2\n");
                        }
                        for (i, x) in h.iter().enumerate() {
                            content.extend(std::iter::repeat(b'a' + i as u8).take(LONG[*x + 1]));
                            content.extend(b",7\n");
                        }
                        if let Some(r) = check_csv(&content, &path, headers, 5) {
                            cases += 1;
                            if h.iter().any(|x| LONG[*x + 1] > 8000) {
                                nontrivial += 1;
                            }
                            fail = r;
                        }
                    });
                }
                let _ = std::fs::remove_file(&path);
                (cases, nontrivial, fail)
            }),
        ));
    }
    for headers in [true, false] {
        for first in 0..4usize {
            out.push(loop_scenario(
                format!("C15/csv/headers{headers}/len{clen}/first{first}"),
                format!("all contents over {{1, comma, LF, CR}} of length <= {clen} starting with symbol {first} that the csv crate parses as a whole (CR only inside CRLF), header {headers}, x 1..={creps} replicas"),
                Arc::new(move || {
                    let path = scratch_file(&format!("csv{headers}{first}"));
                    let sym = [b'1', b',', b'\n', b'\r'];
                    let mut cases = 0;
                    let mut nontrivial = 0;
                    let mut fail = None;
                    for l in 1..=clen {
                        sequences(4, l - 1, |h| {
                            if fail.is_some() {
                                return;
                            }
                            let mut content = vec![sym[first]];
                            content.extend(h.iter().map(|x| sym[*x]));
                            if let Some(r) = check_csv(&content, &path, headers, creps) {
                                cases += 1;
                                if content.iter().filter(|b| **b == b'\n').count() >= 2 {
                                    nontrivial += 1;
                                }
                                fail = r;
                            }
                        });
                    }
                    let _ = std::fs::remove_file(&path);
                    (cases, nontrivial, fail)
                }),
            ));
        }
    }
    macro_rules! range_scenario {
        ($t:ty, $name:expr) => {
            out.push(loop_scenario(
                format!("C15/range/{}", $name),
                format!("Range<{}>: every (start, end) of a boundary grid (MIN, MIN+1, -2..3, 7, MAX-1, MAX, 2^31/2^62-sized spans) (empty, reversed and full-width ranges included) x 1..=9 peers x every index; oracle on the sub-range bounds", $name),
                Arc::new(|| {
                    let mut cases = 0usize;
                    let mut fail: Option<Fail> = None;
                    range_cases!($t, $name, cases, fail);
                    (cases, cases / 2, fail)
                }),
            ));
        };
    }
    range_scenario!(u8, "u8");
    range_scenario!(u16, "u16");
    range_scenario!(u32, "u32");
    range_scenario!(u64, "u64");
    range_scenario!(usize, "usize");
    range_scenario!(i8, "i8");
    range_scenario!(i16, "i16");
    range_scenario!(i32, "i32");
    range_scenario!(i64, "i64");
    range_scenario!(isize, "isize");
    // non-parallel iterator source: every item once, in order, single replica
    out.push(loop_scenario(
        "C15/iterator-source".to_string(),
        "IteratorSource over vectors of length 0..=6: emitted in order, then end of iteration and termination".to_string(),
        Arc::new(|| {
            let mut cases = 0;
            let mut fail = None;
            for l in 0..=6usize {
                let v: Vec<i64> = (0..l as i64).map(|x| (x * 7) % 5).collect();
                cases += 1;
                let env = renoir::StreamContext::new(renoir::RuntimeConfig::local(3).unwrap());
                let chain = env.stream_iter(v.clone().into_iter()).verif_into_chain().chain;
                let got = drive(chain);
                let mut exp: Vec<StreamElement<i64>> = v.iter().map(|x| StreamElement::Item(*x)).collect();
                exp.push(StreamElement::FlushAndRestart);
                exp.push(StreamElement::Terminate);
                if got != exp {
                    fail = Some(Fail::new("c15-iterator-source", format!("IteratorSource over {:?} emitted {:?}", v, got)));
                }
            }
            (cases, cases - 1, fail)
        }),
    ));
    // the ParallelIteratorSource operator itself (setup with the replica's global id and the number
    // of replicas, then next() until Terminate), for a range and for a generator closure
    out.push(loop_scenario(
        "C15/par-iter-operator".to_string(),
        "stream_par_iter(range) and stream_par_iter(closure) for ranges 0..n (n <= 7, also reversed) x 1..=5 replicas, each replica's operator driven with its metadata: every element exactly once over all replicas".to_string(),
        Arc::new(|| {
            let mut cases = 0;
            let mut fails = crate::e2::FailSet::default();
            for n in -2i64..=7 {
                for peers in 1u64..=5 {
                    cases += 1;
                    let mut got_range: Vec<i64> = vec![];
                    let mut got_closure: Vec<i64> = vec![];
                    for id in 0..peers {
                        let env = renoir::StreamContext::new(renoir::RuntimeConfig::local(peers).unwrap());
                        match run_source(env.stream_par_iter(0..n).verif_into_chain().chain, id, peers) {
                            Ok(v) => got_range.extend(v),
                            Err(p) => fails.add(Some(Fail::new("c15-par-iter-panic", format!("stream_par_iter(0..{n}) replica {id}/{peers}: {p}")))),
                        }
                        let env = renoir::StreamContext::new(renoir::RuntimeConfig::local(peers).unwrap());
                        let total = n;
                        match run_source(env.stream_par_iter(move |i: u64, k: u64| (i as i64..total).step_by(k as usize)).verif_into_chain().chain, id, peers) {
                            Ok(v) => got_closure.extend(v),
                            Err(p) => fails.add(Some(Fail::new("c15-par-iter-panic", format!("stream_par_iter(closure, {n}) replica {id}/{peers}: {p}")))),
                        }
                    }
                    let exp: Vec<i64> = (0..n).collect();
                    got_range.sort();
                    got_closure.sort();
                    if got_range != exp {
                        fails.add(Some(Fail::new("c15-par-iter-range", format!("stream_par_iter(0..{n}) over {peers} replicas emitted {:?}", got_range))));
                    }
                    if got_closure != exp {
                        fails.add(Some(Fail::new("c15-par-iter-closure", format!("stream_par_iter(|id, peers| (id..{n}).step_by(peers)) over {peers} replicas emitted {:?}: the closure was not given each (id, peers) once", got_closure))));
                    }
                }
            }
            (cases, cases - 10, fails.first())
        }),
    ));
    // the sources inside running jobs (replicas created by the scheduler, also on several hosts)
    for layout in [crate::kit::Layout::Local(3), crate::kit::Layout::Remote(vec![2, 1]), crate::kit::Layout::Remote(vec![1, 2])] {
        for kind in [SrcJob::Range(7), SrcJob::Range(2), SrcJob::Closure(5), SrcJob::File, SrcJob::Csv] {
            if tier == Tier::Quick && kind == SrcJob::Range(2) && layout.hosts() > 1 {
                continue;
            }
            out.push(source_job_scenario(kind, layout.clone(), if tier == Tier::Quick { 0 } else { 1 }));
        }
    }
    // channel source fed by a concurrent task: every item once, in order, on a single replica
    for n in [0usize, 1, 4] {
        for p in [1u64, 2] {
            out.push(channel_source_scenario("C15", n, p, if tier == Tier::Quick { 1 } else { 2 }, false));
            if n > 0 {
                out.push(channel_source_scenario("C15", n, p, if tier == Tier::Quick { 1 } else { 2 }, true));
            }
        }
    }
    if tier == Tier::Quick {
        crate::props::common::deepen(&mut out, &|n| n.starts_with("C15/job/") || n.starts_with("C15/channel-source/n4"));
    }
    out
}

#[derive(Clone, Copy, Debug, PartialEq, Eq)]
enum SrcJob {
    Range(i64),
    Closure(i64),
    File,
    Csv,
}

const JOB_FILE: &[u8] = b"a\nbb\n\nccc\r\ndddd\ne";
const JOB_CSV: &[u8] = b"x,y\n1,2\n3,4\r\n5,6\n7,8";

/// A job `source -> collect_vec` on a layout: the multiset collected is the source's content.
fn source_job_scenario(kind: SrcJob, layout: crate::kit::Layout, bound: usize) -> Scenario {
    use crate::rt::{log, Ev, Status};
    let l2 = layout.clone();
    let name = format!("C15/job/{:?}/{}", kind, layout.name());
    let tag = name.replace('/', "_").replace(['(', ')'], "-");
    let body: crate::rt::Body = Arc::new(move || {
        let path = scratch_file(&tag);
        match kind {
            SrcJob::File => std::fs::write(&path, JOB_FILE).unwrap(),
            SrcJob::Csv => std::fs::write(&path, JOB_CSV).unwrap(),
            _ => {}
        }
        let p2 = path.clone();
        let res = crate::kit::run_hosts(
            &l2,
            Arc::new(move |host, env| {
                let out = match kind {
                    SrcJob::Range(n) => env.stream_par_iter(0..n).map(|x| vec![x]).collect_vec(),
                    SrcJob::Closure(n) => env.stream_par_iter(move |i: u64, k: u64| (i as i64..n).step_by(k as usize)).map(|x| vec![x]).collect_vec(),
                    SrcJob::File => env.stream_file(&p2).map(|l| l.bytes().map(|b| b as i64).collect::<Vec<i64>>()).collect_vec(),
                    SrcJob::Csv => env.stream_csv::<(i64, i64)>(&p2).map(|(a, b)| vec![a, b]).collect_vec(),
                };
                env.execute_blocking();
                if let Some(v) = out.get() {
                    for row in v {
                        log(Ev::Note("row", row));
                    }
                    log(Ev::Note("published", vec![host as i64]));
                }
            }),
        );
        let _ = std::fs::remove_file(&path);
        for (h, r) in res.into_iter().enumerate() {
            if let Some(p) = r {
                log(Ev::Text("host-panic", format!("{h}: {p}")));
            }
        }
    });
    let mut exp: Vec<Vec<i64>> = match kind {
        SrcJob::Range(n) | SrcJob::Closure(n) => (0..n).map(|x| vec![x]).collect(),
        // FileSource yields each line with its terminator (see `check_file`)
        SrcJob::File => JOB_FILE.split_inclusive(|b| *b == b'\n').map(|l| l.iter().map(|b| *b as i64).collect()).collect(),
        SrcJob::Csv => vec![vec![1, 2], vec![3, 4], vec![5, 6], vec![7, 8]],
    };
    exp.sort();
    let descr = format!("job {:?} -> collect_vec on layout {} (file content {:?}, csv content {:?})", kind, layout.name(), String::from_utf8_lossy(JOB_FILE), String::from_utf8_lossy(JOB_CSV));
    let d2 = descr.clone();
    let check: crate::explore::Check = Arc::new(move |r| {
        if r.status != Status::Done {
            return Err(Fail::new("c15-job-abnormal", format!("{d2}: {:?}", r.status)));
        }
        let mut rows: Vec<Vec<i64>> = vec![];
        let mut published = 0;
        for e in &r.log {
            match e {
                Ev::Text("host-panic", t) => return Err(Fail::new("c15-job-panic", format!("{d2}: {t}"))),
                Ev::Note("row", v) => rows.push(v.clone()),
                Ev::Note("published", _) => published += 1,
                _ => {}
            }
        }
        rows.sort();
        if published != 1 || rows != exp {
            return Err(Fail::new(
                format!("c15-job-{}", match kind { SrcJob::Range(_) => "range", SrcJob::Closure(_) => "closure", SrcJob::File => "file", SrcJob::Csv => "csv" }),
                format!("{d2}: collected {:?} (published {published} times), the source holds {:?}", rows, exp),
            ));
        }
        Ok(crate::explore::hash_of(&r.trace.len()))
    });
    Scenario {
        name,
        descr,
        params: crate::rt::EnvParams::default(),
        body,
        check,
        bound,
        orders: crate::props::common::ORDERS3.to_vec(),
        max_execs: 0,
        shards: 1,
        nontrivial: true,
        unbounded: false,
        loop_body: false,
        sometimes: vec![],
    }
}

pub fn channel_source_scenario(prefix: &str, n: usize, p: u64, bound: usize, pause_before_close: bool) -> Scenario {
    use crate::rt::{log, Ev, Status};
    use renoir::operator::source::ChannelSource;
    let body: crate::rt::Body = Arc::new(move || {
        let env = crate::kit::Layout::Local(p).env(0);
        let (tx, source) = ChannelSource::<i64>::new(2);
        let out = crate::kit::probe(env.stream(source).batch_mode(BatchMode::fixed(2)), 3).collect_vec();
        let feeder = renoir::verif::thread::spawn(move || {
            for i in 0..n as i64 {
                tx.send(i * 7 % 5).unwrap();
            }
            if pause_before_close {
                // the source is parked in its blocking receive when the channel is closed
                renoir::verif::thread::sleep(std::time::Duration::from_millis(500));
            }
        });
        env.execute_blocking();
        let _ = feeder.join();
        match out.get() {
            Some(v) => log(Ev::Note("seq", v)),
            None => log(Ev::Note("no-result", vec![])),
        }
    });
    let exp: Vec<i64> = (0..n as i64).map(|i| i * 7 % 5).collect();
    let check: crate::explore::Check = Arc::new(move |r| {
        if r.status != Status::Done {
            return Err(Fail::new("c15-channel-source-abnormal", format!("{:?}", r.status)));
        }
        let mut replicas = std::collections::BTreeSet::new();
        for e in &r.log {
            if let Ev::Probe(3, c, k, _, _) = e {
                if *k <= 1 {
                    replicas.insert(*c);
                }
            }
        }
        if replicas.len() > 1 {
            return Err(Fail::new("c15-channel-source-replicated", format!("items were emitted on replicas {:?}", replicas)));
        }
        // behind the source: data*, exactly one end of iteration, one Terminate (C05's grammar for
        // a job without loops)
        let mut kinds: std::collections::BTreeMap<(u64, u64, u64), Vec<u8>> = Default::default();
        for e in &r.log {
            if let Ev::Probe(3, c, k, _, _) = e {
                if *k != crate::kit::K_FB {
                    kinds.entry(*c).or_default().push(*k);
                }
            }
        }
        for (c, ks) in &kinds {
            let n = ks.len();
            let fars = ks.iter().filter(|k| **k == crate::kit::K_FAR).count();
            if !(n >= 2 && ks[n - 1] == crate::kit::K_TERM && ks[n - 2] == crate::kit::K_FAR && fars == 1) {
                return Err(Fail::new("c05-channel-source-grammar", format!("replica {:?} of the channel source emitted kinds {:?} (0 item, 4 terminate, 5 end of iteration): expected items, one end of iteration, terminate", c, ks)));
            }
        }
        for e in &r.log {
            if let Ev::Note("seq", v) = e {
                if *v != exp {
                    return Err(Fail::new("c15-channel-source-order", format!("channel source delivered {:?}, the feeder sent {:?}", v, exp)));
                }
                return Ok(crate::explore::hash_of(&r.trace.len()));
            }
        }
        Err(Fail::new("c15-channel-source-no-result", "no result".to_string()))
    });
    Scenario {
        name: format!("{prefix}/channel-source/n{n}/p{p}{}", if pause_before_close { "/late-close" } else { "" }),
        descr: format!("ChannelSource(capacity 2) fed with {n} items by a concurrent task{}, {p} cores, every schedule within the bound", if pause_before_close { " that closes the channel 500 ms later" } else { "" }),
        params: crate::rt::EnvParams::default(),
        body,
        check,
        bound,
        orders: crate::props::common::ORDERS3.to_vec(),
        max_execs: 0,
        shards: 1,
        nontrivial: n > 1,
        unbounded: false,
        loop_body: false,
        sometimes: vec![],
    }
}

pub fn spec() -> PropSpec {
    PropSpec {
        id: "C15",
        build,
        rule: "FileSource: ALL contents over {a, LF, CR} up to the length bound x 1..6 replicas, each replica's source driven directly with its (global id, replicas) metadata, multiset of emitted strings = split_inclusive(LF); CsvSource: all contents over {1, comma, LF, CR} the csv crate parses as a whole (CR only in CRLF, header consistent), with and without header, 1..5 replicas, reference = the same crate reading the whole file; parallel ranges: all 10 integer types x boundary grid x 1..9 peers, sub-range bounds must tile the range (nothing for empty/reversed); IteratorSource order; non-trivial = content with >= 2 line terminators / non-empty range",
        assumptions: &["file contents up to the stated length over a 3-4 symbol alphabet; default CSV dialect; arithmetic overflow checks enabled as in the debug/test profile"],
        exhaustive_when_uncapped: true,
        budget_s: (50, 900),
    }
}
