//! C11: side inputs of a loop are replayed completely and identically every round.
use std::collections::BTreeMap;
use std::sync::Arc;

use renoir::operator::StreamElement;
use renoir::prelude::*;
use renoir::{BatchMode, Replication};

use crate::driver::{PropSpec, Tier};
use crate::explore::{hash_of, Check, Fail, Scenario};
use crate::kit::{erase, log_sink, probe, sink_rows, Layout, ScriptSource, DS};
use crate::props::common::ORDERS3;
use crate::rt::{log, EnvParams, Ev, Status};

#[derive(Clone, Copy, Debug, PartialEq, Eq)]
enum Combine {
    Merge,
    JoinHash,
    JoinBroadcast,
}

#[derive(Clone, Copy, Debug, PartialEq, Eq)]
enum LoopKind {
    Replay,
    Iterate,
}

const SIDE_PROBE: u32 = 77;
const SIDE_BASE: i64 = 1000;

fn spread(v: &[i64], p: u64) -> Vec<Vec<StreamElement<i64>>> {
    let mut s = vec![vec![]; p as usize];
    for (i, x) in v.iter().enumerate() {
        s[i % p as usize].push(StreamElement::Item(*x));
    }
    s
}

#[allow(clippy::too_many_arguments)]
fn scenario(lk: LoopKind, comb: Combine, side_left: bool, input: Vec<i64>, side: Vec<i64>, rounds: usize, p: u64, batch: BatchMode, bound: usize) -> Scenario {
    scenario_on(lk, comb, side_left, input, side, rounds, Layout::Local(p), batch, bound)
}

#[allow(clippy::too_many_arguments)]
fn scenario_on(lk: LoopKind, comb: Combine, side_left: bool, input: Vec<i64>, side: Vec<i64>, rounds: usize, layout: Layout, batch: BatchMode, bound: usize) -> Scenario {
    let p = layout.total_cores();
    let lname = if layout.hosts() == 1 { format!("p{p}") } else { layout.name() };
    let side_txt = if side.len() > 12 { format!("0..{}", side.len()) } else { format!("{:?}", side) };
    let name = format!("C11/{:?}-{:?}-sideleft{side_left}/in{:?}/side{side_txt}/rounds{rounds}/{lname}/{:?}", lk, comb, input, batch).replace(' ', "");
    let descr = format!("{:?} of {rounds} rounds whose body combines ({:?}) the loop stream {:?} with an outside stream {side_txt}; layout {}, batch mode {:?}", lk, comb, input, layout.name(), batch);
    let (input2, side2) = (input.clone(), side.clone());
    let body: crate::rt::Body = Arc::new(move || {
      let (input2, side2) = (input2.clone(), side2.clone());
      let res = crate::kit::run_hosts(&layout, Arc::new(move |host, env| {
        let main = env.stream(ScriptSource::new(spread(&input2, p), Replication::Unlimited)).batch_mode(batch);
        // the side stream: tagged values, probed so that what reaches the body in every round is seen
        let side_vals: Vec<i64> = side2.iter().map(|x| SIDE_BASE + x).collect();
        let side_stream = env.stream(ScriptSource::new(spread(&side_vals, p), Replication::Unlimited)).batch_mode(batch);
        macro_rules! body {
            () => {
                move |s, st: renoir::IterationStateHandle<i64>| {
                  // every element the body produces also reads the loop state: logged right after
                  // the probe event of that element, so its round is known
                  let read = move |x: i64| {
                      let v = *st.get();
                      log(Ev::Note("state-read", vec![v, x]));
                      x
                  };
                  let combined: DS<i64> = match (comb, side_left) {
                    (Combine::Merge, false) => erase(probe(s.merge(side_stream), SIDE_PROBE)),
                    // the outside stream as the receiver of the operator
                    (Combine::Merge, true) => erase(probe(side_stream.merge(s), SIDE_PROBE)),
                    (Combine::JoinHash, false) => erase(probe(
                        erase(s.join(side_stream, |x: &i64| x % 2, |y: &i64| y % 2).unkey().map(|(_, (l, r))| l * 10_000 + r)),
                        SIDE_PROBE,
                    )),
                    (Combine::JoinHash, true) => erase(probe(
                        erase(side_stream.join(s, |y: &i64| y % 2, |x: &i64| x % 2).unkey().map(|(_, (r, l))| l * 10_000 + r)),
                        SIDE_PROBE,
                    )),
                    (Combine::JoinBroadcast, _) => erase(probe(
                        erase(
                            s.join_with(side_stream, |x: &i64| x % 2, |y: &i64| y % 2)
                                .ship_broadcast_right()
                                .local_hash()
                                .inner()
                                .map(|(_, (l, r))| l * 10_000 + r),
                        ),
                        SIDE_PROBE,
                    )),
                  };
                  erase(combined.map(read))
                }
            };
        }
        match lk {
            LoopKind::Replay => {
                let out = main
                    .replay(rounds, 0i64, body!(), |d: &mut i64, x: i64| *d += x, |st: &mut i64, d: i64| *st += d, |_: &mut i64| true)
                    .collect_vec();
                env.execute_blocking();
                log_sink("state", host, out.get());
            }
            LoopKind::Iterate => {
                // the body must give back the loop's element type: keep only the loop side of a pair
                let (st, out) = main.iterate(rounds, 0i64, body!(), |d: &mut i64, x: i64| *d += x, |st: &mut i64, d: i64| *st += d, |_: &mut i64| true);
                let st = st.collect_vec();
                let out = out.collect_vec();
                env.execute_blocking();
                log_sink("state", host, st.get());
                log_sink("output", host, out.get());
            }
        }
      }));
      for (h, r) in res.into_iter().enumerate() {
          if let Some(p) = r {
              crate::rt::log(Ev::Text("host-panic", format!("{h}: {p}")));
          }
      }
    });
    // reference
    let side_vals: Vec<i64> = side.iter().map(|x| SIDE_BASE + x).collect();
    let step = |cur: &Vec<i64>| -> Vec<i64> {
        match comb {
            Combine::Merge => {
                let mut v = cur.clone();
                v.extend(side_vals.iter().copied());
                v
            }
            _ => {
                let mut v = vec![];
                for l in cur {
                    for r in &side_vals {
                        if l.rem_euclid(2) == r.rem_euclid(2) {
                            v.push(l * 10_000 + r);
                        }
                    }
                }
                v
            }
        }
    };
    let mut state = 0i64;
    let mut cur = input.clone();
    let mut per_round_outputs: Vec<Vec<i64>> = vec![];
    // the loop state each round runs against
    let mut states: Vec<i64> = vec![0];
    for _ in 0..rounds.max(1) {
        let out = step(&cur);
        state += out.iter().sum::<i64>();
        states.push(state);
        let mut o = out.clone();
        o.sort();
        per_round_outputs.push(o);
        if lk == LoopKind::Iterate {
            cur = out;
        }
    }
    let mut fin = cur.clone();
    fin.sort();
    let d2 = descr.clone();
    let tagk = format!("{:?}-{:?}{}", lk, comb, if side_left { "-sideleft" } else { "" });
    let check: Check = Arc::new(move |r| {
        match &r.status {
            Status::Done => {}
            Status::Deadlock(b) => return Err(Fail::new(format!("c11-{tagk}-deadlock"), format!("{d2}: deadlock, blocked: {b}"))),
            other => return Err(Fail::new(format!("c11-{tagk}-abnormal"), format!("{d2}: {:?}", other))),
        }
        for e in &r.log {
            if let Ev::Race(t) = e {
                return Err(Fail::new(format!("c11-{tagk}-state-race"), format!("{d2}: {t}")));
            }
            if let Ev::Text("host-panic", t) = e {
                return Err(Fail::new(format!("c11-{tagk}-panic"), format!("{d2}: {t}")));
            }
        }
        // what the body produced in each round (all replicas together)
        let mut fars: BTreeMap<(u64, u64, u64), usize> = BTreeMap::new();
        let mut rounds_seen: BTreeMap<usize, Vec<i64>> = BTreeMap::new();
        let mut last_probe: Option<(u64, u64, u64)> = None;
        for e in &r.log {
            if let Ev::Probe(SIDE_PROBE, c, k, _, pl) = e {
                if *k == crate::kit::K_FAR {
                    *fars.entry(*c).or_insert(0) += 1;
                } else if *k <= 1 {
                    rounds_seen.entry(fars.get(c).copied().unwrap_or(0)).or_default().push(pl[0]);
                    last_probe = Some(*c);
                }
            }
            if let Ev::Note("state-read", v) = e {
                // the element the body is handling belongs to the round its replica is in: it
                // must see the state that round runs against
                if let Some(c) = last_probe.take() {
                    let round = fars.get(&c).copied().unwrap_or(0);
                    if let Some(exp) = states.get(round) {
                        if *exp != v[0] {
                            return Err(Fail::new(
                                format!("c11-{tagk}-state-of-another-round"),
                                format!("{d2}: in round {} replica {:?} handled element {} of the combined stream against loop state {}, that round's state is {exp} (states {:?})", round + 1, c, v[1], v[0], states),
                            ));
                        }
                    }
                }
            }
        }
        for (k, exp) in per_round_outputs.iter().enumerate() {
            let mut got = rounds_seen.get(&k).cloned().unwrap_or_default();
            got.sort();
            if &got != exp {
                // which side elements are missing / duplicated in this round?
                let sig = if got.len() < exp.len() { "side-input-incomplete" } else if got.len() > exp.len() { "side-input-duplicated" } else { "side-input-differs" };
                return Err(Fail::new(
                    format!("c11-{tagk}-{sig}-round{}", if k == 0 { "1" } else { "n" }),
                    if exp.len() > 40 {
                        format!("{d2}: in round {} the body produced {} elements; with the complete side input it produces {}", k + 1, got.len(), exp.len())
                    } else {
                        format!("{d2}: in round {} the body produced {:?}; with the complete side input it produces {:?}", k + 1, got, exp)
                    },
                ));
            }
        }
        let (n, rows) = sink_rows(&r.log, "state");
        if n != 1 || rows.as_ref().map(|x| x.len()) != Some(1) || rows.as_ref().unwrap()[0][0] != state {
            return Err(Fail::new(format!("c11-{tagk}-final-state"), format!("{d2}: final state {:?}, expected {state}", rows)));
        }
        if lk == LoopKind::Iterate {
            let (n, rows) = sink_rows(&r.log, "output");
            let got: Vec<i64> = rows.unwrap_or_default().into_iter().map(|x| x[0]).collect();
            if n != 1 || got != fin {
                return Err(Fail::new(format!("c11-{tagk}-output"), format!("{d2}: iterate output {:?}, expected {:?}", got, fin)));
            }
        }
        Ok(hash_of(&r.trace.len()))
    });
    Scenario {
        name,
        descr,
        params: EnvParams { random_arity: p as usize, ..Default::default() },
        body,
        check,
        bound,
        orders: ORDERS3.to_vec(),
        max_execs: 0,
        shards: 1,
        nontrivial: !side.is_empty() && rounds >= 2,
        unbounded: false,
        loop_body: false,
        sometimes: vec![],
    }
}

fn build(tier: Tier) -> Vec<Scenario> {
    let mut out = vec![];
    let bound = if tier == Tier::Quick { 1 } else { 2 };
    let ps: Vec<u64> = vec![1, 2];
    for lk in [LoopKind::Replay, LoopKind::Iterate] {
        for comb in [Combine::Merge, Combine::JoinHash, Combine::JoinBroadcast] {
            if lk == LoopKind::Iterate && comb != Combine::Merge {
                // a join changes the element type; for iterate keep the merge (same type)
                continue;
            }
            for &p in &ps {
                for side in [vec![], vec![1i64], vec![1, 2, 3]] {
                    for rounds in if tier == Tier::Quick { vec![1usize, 3] } else { vec![1, 2, 3] } {
                        for batch in [BatchMode::fixed(1), BatchMode::fixed(1024)] {
                            if tier == Tier::Quick && batch == BatchMode::fixed(1024) && rounds == 1 {
                                continue;
                            }
                            out.push(scenario(lk, comb, false, vec![2, 5], side.clone(), rounds, p, batch, bound));
                            if comb != Combine::JoinBroadcast && rounds >= 2 {
                                out.push(scenario(lk, comb, true, vec![2, 5], side.clone(), rounds, p, batch, bound));
                            }
                        }
                    }
                }
            }
        }
    }
    // a side input of several full batches, more than the channels hold (the cache of the
    // two-input Start spans many batches)
    for lk in [LoopKind::Replay, LoopKind::Iterate] {
        for (batch, side_left) in [(BatchMode::fixed(1024), false), (BatchMode::fixed(100), true)] {
            out.push(scenario(lk, Combine::Merge, side_left, vec![2, 5], (0..2500).collect(), 2, 2, batch, 0));
        }
    }
    // adaptive batching: the timed receive of the two-input Start may expire between two rounds
    // (an early timer firing is a deviation)
    {
        let ad = BatchMode::adaptive(1024, std::time::Duration::from_millis(10));
        for (lk, comb) in [(LoopKind::Replay, Combine::Merge), (LoopKind::Replay, Combine::JoinHash), (LoopKind::Iterate, Combine::Merge)] {
            for side_left in [false, true] {
                for p in [1u64, 2] {
                    if tier == Tier::Quick && p == 2 && comb == Combine::JoinHash {
                        continue;
                    }
                    out.push(scenario(lk, comb, side_left, vec![2, 5], vec![1, 2, 3], 3, p, ad, bound));
                }
            }
        }
    }
    // two hosts: the side input reaches the loop body through the (virtual) network
    for layout in [Layout::Remote(vec![1, 1]), Layout::Remote(vec![2, 1])] {
        if tier == Tier::Quick && layout.total_cores() == 3 {
            continue;
        }
        let b = if tier == Tier::Quick { 0 } else { 1 };
        for (lk, comb) in [(LoopKind::Replay, Combine::Merge), (LoopKind::Replay, Combine::JoinHash), (LoopKind::Replay, Combine::JoinBroadcast), (LoopKind::Iterate, Combine::Merge)] {
            for side in [vec![1i64], vec![1, 2, 3]] {
                for batch in [BatchMode::fixed(1), BatchMode::fixed(1024)] {
                    out.push(scenario_on(lk, comb, false, vec![2, 5], side.clone(), 3, layout.clone(), batch, b));
                    if comb != Combine::JoinBroadcast {
                        out.push(scenario_on(lk, comb, true, vec![2, 5], side.clone(), 2, layout.clone(), batch, b));
                    }
                }
            }
        }
    }
    out
}

pub fn spec() -> PropSpec {
    PropSpec {
        id: "C11",
        build,
        rule: "replay and iterate loops whose body merges / hash-joins / broadcast-joins the loop stream with a stream created outside the loop, side input of 0, 1 and 3 elements (one or several batches: batch size 1 and 1024), 1-3 rounds, parallelism 1-2; a probe inside the body records what the body produces in every round: it must equal what the complete side input gives, in every round; final state / iterate output must match the sequential loop and the job must terminate; every schedule within the deviation bound under three canonical orders (which decides whether a side batch is cached before or after the first round closes); non-trivial = non-empty side input and at least 2 rounds",
        assumptions: &["deviation bound as reported", "the cache of the two-input Start cannot be driven in isolation (its state lock needs the loop head), so this property is checked on whole jobs only"],
        exhaustive_when_uncapped: false,
        budget_s: (55, 1500),
    }
}
