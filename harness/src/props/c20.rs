//! C20: fail-stop - a panicking user function is never masked by a partial result.
use std::sync::Arc;

use renoir::BatchMode;

use crate::driver::{PropSpec, Tier};
use crate::explore::{hash_of, Check, Fail, Scenario};
use crate::kit::{sink_rows, Layout};
use crate::program::Instr::*;
use crate::program::{reference, well_formed, Program, Rep};
use crate::props::common::*;
use crate::rt::{Ev, Status};

/// (name, program with a `PanicAt` placeholder position, sinks downstream of the fault)
fn library() -> Vec<(&'static str, Vec<Program>, Vec<usize>)> {
    // each entry: program variants differing in where the fault sits; `downstream` = indexes of
    // the sinks that are downstream of the faulty operator
    let f = |r: u64, k: usize| PanicAt(r, k);
    let mut v: Vec<(&'static str, Vec<Program>, Vec<usize>)> = vec![];
    let mut with = |name: &'static str, mk: &dyn Fn(crate::program::Instr) -> Program, downstream: Vec<usize>| {
        let mut progs = vec![];
        for r in 0..2u64 {
            for k in 1..=3usize {
                progs.push(mk(f(r, k)));
            }
        }
        v.push((name, progs, downstream));
    };
    with("chain-first-block", &|x| vec![Map, x, Shuffle, Map], vec![0]);
    with("chain-second-block", &|x| vec![Map, Shuffle, x, Map], vec![0]);
    with("chain-before-sink", &|x| vec![Shuffle, Map, ReplOne, x], vec![0]);
    with("groupby-fold-upstream", &|x| vec![Shuffle, x, GbSum], vec![0]);
    with("groupby-fold-downstream", &|x| vec![GbSum, x], vec![0]);
    with("fold-assoc-local-phase", &|x| vec![Shuffle, x, FoldAssoc], vec![0]);
    with("diamond-one-branch", &|x| vec![Shuffle, Dup, x, Map, Swap, Filter, Merge], vec![0]);
    with("join-left-input", &|x| vec![Shuffle, Dup, x, Map, Join(0, 0, 0)], vec![0]);
    with("join-right-input", &|x| vec![Shuffle, Dup, Map, Swap, x, Swap, Join(2, 0, 0)], vec![0]);
    // the fault is in the branch of the first sink only (after the shuffle that follows the split)
    with("two-sinks-one-branch", &|x| vec![Shuffle, Dup, Shuffle, x, Sink, Map, Sink], vec![0]);
    with("two-sinks-common-prefix", &|x| vec![Shuffle, x, Dup, Map, Sink, Filter, Sink], vec![0, 1]);
    v
}

fn build(tier: Tier) -> Vec<Scenario> {
    let mut out = vec![];
    let cfgs: Vec<JobCfg> = match tier {
        Tier::Quick => vec![
            JobCfg { layout: Layout::Local(2), batch: BatchMode::fixed(2), capacity: 0 },
            JobCfg { layout: Layout::Local(2), batch: BatchMode::single(), capacity: 1 },
            // timed receives (the default kind of batching) and a second host
            JobCfg { layout: Layout::Local(2), batch: BatchMode::adaptive(2, std::time::Duration::from_millis(10)), capacity: 0 },
            JobCfg { layout: Layout::Remote(vec![1, 1]), batch: BatchMode::fixed(2), capacity: 0 },
        ],
        Tier::Thorough => vec![
            JobCfg { layout: Layout::Local(1), batch: BatchMode::single(), capacity: 0 },
            JobCfg { layout: Layout::Local(2), batch: BatchMode::fixed(2), capacity: 0 },
            JobCfg { layout: Layout::Local(2), batch: BatchMode::single(), capacity: 1 },
            JobCfg { layout: Layout::Local(2), batch: BatchMode::adaptive(2, std::time::Duration::from_millis(10)), capacity: 2 },
            JobCfg { layout: Layout::Remote(vec![1, 1]), batch: BatchMode::fixed(2), capacity: 0 },
        ],
    };
    let bound = if tier == Tier::Quick { 1 } else { 2 };
    let input: Vec<i64> = vec![1, 2, 3, 4, 5, 6];
    for (name, progs, downstream) in library() {
        for prog in progs {
            assert!(well_formed(&prog, Rep::One).is_some(), "{name}: {:?}", prog);
            for cfg in &cfgs {
                let remote = cfg.layout.hosts() > 1;
                let mut s = program_scenario(
                    &format!("C20/{name}"),
                    &prog,
                    &input,
                    SrcKind::Iter,
                    cfg,
                    if remote { bound - 1 } else { bound },
                    // (quick: remote layout with the default schedule of each canonical order only)
                    &ORDERS3[..if tier == Tier::Quick { 1 } else { 3 }],
                    String::new(),
                );
                // the job graph (for "every host that runs the failed replica or anything
                // downstream of it"): derived once, outside the explored executions
                let (edges, replicas) = job_graph(&prog, cfg);
                let expected = reference(&input, &prog);
                let downstream = downstream.clone();
                let descr = s.descr.clone();
                let hosts = cfg.layout.hosts();
                let check: Check = Arc::new(move |r| {
                    let fired = r.log.iter().any(|e| matches!(e, Ev::Note("fault-fired", _)));
                    match &r.status {
                        Status::Done => {}
                        Status::Deadlock(b) => {
                            return Err(Fail::new(
                                if fired { "c20-workers-left-blocked" } else { "c20-deadlock-without-fault" },
                                format!("{descr}: after the injected panic some workers never unwind: {b}"),
                            ))
                        }
                        other => return Err(Fail::new("c20-abnormal", format!("{descr}: {:?}", other))),
                    }
                    let panicked: Vec<&String> = r.log.iter().filter_map(|e| if let Ev::Text("host-panic", t) = e { Some(t) } else { None }).collect();
                    if !fired {
                        // the faulty replica never got its k-th element: an ordinary run
                        if !panicked.is_empty() {
                            return Err(Fail::new("c20-panic-without-fault", format!("{descr}: {:?}", panicked)));
                        }
                        for (i, exp) in expected.iter().enumerate() {
                            let (n, rows) = sink_rows(&r.log, SINK_TAGS[i]);
                            let got: Vec<i64> = rows.unwrap_or_default().into_iter().map(|x| x[0]).collect();
                            if n != 1 || &got != exp {
                                return Err(Fail::new("c20-wrong-result-without-fault", format!("{descr}: sink {i} {:?} vs {:?}", got, exp)));
                            }
                        }
                        return Ok(hash_of(&0u8));
                    }
                    // the failure must surface from execute_blocking (single host: on that host;
                    // several hosts: at least on the host of the failed replica - every host that
                    // runs it or something downstream of it)
                    if panicked.is_empty() {
                        return Err(Fail::new("c20-failure-masked", format!("{descr}: a user function panicked but execute_blocking returned normally on every host")));
                    }
                    if hosts > 1 {
                        // hosts that must fail: the one of the failed replica and those of every
                        // replica of every block downstream of the failed block
                        let fired_at = r.log.iter().find_map(|e| if let Ev::Note("fault-fired", v) = e { Some((v[0] as u64, v[1] as u64, v[2] as u64)) } else { None }).unwrap();
                        // replicas reachable from the failed replica in the execution graph
                        let mut need: std::collections::BTreeSet<u64> = std::collections::BTreeSet::new();
                        let mut seen = vec![fired_at];
                        let mut i = 0;
                        while i < seen.len() {
                            need.insert(seen[i].1);
                            for (f, t) in &edges {
                                if *f == seen[i] && !seen.contains(t) {
                                    seen.push(*t);
                                }
                            }
                            i += 1;
                        }
                        let _ = &replicas;
                        let failed_hosts: std::collections::BTreeSet<u64> = panicked.iter().filter_map(|t| t.split(':').next().and_then(|x| x.parse().ok())).collect();
                        if !need.is_subset(&failed_hosts) {
                            return Err(Fail::new("c20-failure-masked-on-a-host", format!("{descr}: execute_blocking failed on hosts {:?} but hosts {:?} run the failed replica or something downstream of it", failed_hosts, need)));
                        }
                    }
                    for i in &downstream {
                        let (n, rows) = sink_rows(&r.log, SINK_TAGS[*i]);
                        if n != 0 {
                            return Err(Fail::new("c20-partial-result-published", format!("{descr}: sink {i}, downstream of the failed replica, published {:?}", rows)));
                        }
                    }
                    // a sink that is not downstream may have completed: then only with its full result
                    for (i, exp) in expected.iter().enumerate() {
                        if downstream.contains(&i) {
                            continue;
                        }
                        let (n, rows) = sink_rows(&r.log, SINK_TAGS[i]);
                        if n > 0 {
                            let got: Vec<i64> = rows.unwrap_or_default().into_iter().map(|x| x[0]).collect();
                            if &got != exp {
                                return Err(Fail::new("c20-partial-result-published", format!("{descr}: sink {i} published {:?}, complete result is {:?}", got, exp)));
                            }
                        }
                    }
                    Ok(hash_of(&(1u8, panicked.len())))
                });
                s.check = check;
                out.push(s);
            }
        }
    }
    // a source that never ends by itself: the failure must still bring the whole job down (the
    // workers upstream of the failed replica unwind when their sends fail; one that keeps
    // feeding the surviving replicas for ever is a job that never terminates)
    // (single host only: on several hosts the upstream host of an endless source is brought down
    // by the death of the failed host's process - its sockets close -, which the harness, whose
    // hosts are tasks of one process, does not model; the statement itself only speaks of the
    // hosts that run the failed replica or something downstream of it)
    for cfg in cfgs.iter().filter(|c| c.layout.hosts() == 1) {
        for (r, k) in [(0u64, 1usize), (1, 2), (0, 3)] {
            out.push(endless_scenario(cfg.clone(), r, k, if tier == Tier::Quick { 0 } else { 1 }));
        }
    }
    if tier == Tier::Quick {
        deepen(&mut out, &|n| n.contains("PanicAt(1, 2)") && n.contains("local2-fixed2") && (n.contains("chain-second-block") || n.contains("join-left-input") || n.contains("groupby-fold-upstream")));
    }
    out
}

fn endless_scenario(cfg: JobCfg, replica: u64, k: usize, bound: usize) -> Scenario {
    use renoir::prelude::*;
    let name = format!("C20/endless-source/PanicAt({replica}, {k})/{}", cfg.name());
    let descr = format!("stream_iter(0..) -> shuffle -> map with an injected panic at the {k}-th element of replica {replica} -> for_each, config {}", cfg.name());
    let cfg2 = cfg.clone();
    let body: crate::rt::Body = Arc::new(move || {
        let batch = cfg2.batch;
        let res = crate::kit::run_hosts(
            &cfg2.layout,
            Arc::new(move |_host, env| {
                let s = env.stream_iter(0i64..).batch_mode(batch).shuffle().map(|x| x + 1);
                crate::kit::panic_at(s, replica, k).for_each(|_| {});
                env.execute_blocking();
            }),
        );
        for (h, r) in res.into_iter().enumerate() {
            if let Some(p) = r {
                crate::rt::log(Ev::Text("host-panic", format!("{h}: {p}")));
            }
        }
    });
    let d2 = descr.clone();
    let check: Check = Arc::new(move |r| {
        let fired = r.log.iter().any(|e| matches!(e, Ev::Note("fault-fired", _)));
        match &r.status {
            Status::Done => {}
            Status::Deadlock(b) => return Err(Fail::new("c20-workers-left-blocked", format!("{d2}: after the injected panic some workers never unwind: {b}"))),
            other => return Err(Fail::new("c20-abnormal", format!("{d2}: {:?}", other))),
        }
        if !fired {
            return Err(Fail::new("c20-endless-ended", format!("{d2}: the job ended although the fault never fired")));
        }
        if !r.log.iter().any(|e| matches!(e, Ev::Text("host-panic", _))) {
            return Err(Fail::new("c20-failure-masked", format!("{d2}: a user function panicked but execute_blocking returned normally on every host")));
        }
        Ok(hash_of(&1u8))
    });
    Scenario {
        name,
        descr,
        params: env_params(&cfg),
        body,
        check,
        bound,
        orders: ORDERS3[..1].to_vec(),
        max_execs: 0,
        shards: 1,
        nontrivial: true,
        unbounded: false,
        loop_body: false,
        sometimes: vec![],
    }
}

/// (job graph edges, (block, host) of every replica) of the program in this configuration.
#[allow(clippy::type_complexity)]
fn job_graph(prog: &Program, cfg: &JobCfg) -> (Vec<((u64, u64, u64), (u64, u64, u64))>, Vec<(u64, u64)>) {
    let env = cfg.layout.env(0);
    let s = crate::kit::erase(env.stream_iter(vec![0i64].into_iter()));
    let _outs = crate::program::build(s, prog);
    let g = env.verif_execution_graph();
    (
        g.links.iter().map(|l| (l.0, l.1)).collect(),
        g.blocks.iter().flat_map(|b| b.replicas.iter().map(move |r| (b.id, r.0 .1))).collect(),
    )
}

pub fn spec() -> PropSpec {
    PropSpec {
        id: "C20",
        build,
        rule: "crash-point enumeration: acyclic jobs (chain, shuffle, group_by+fold, two-phase fold, diamond, inner and outer join, two sinks) x position of the faulty operator (first block, later block, right before the sink, upstream/downstream of the aggregation, one join input, one branch) x replica 0/1 x k-th element (1..3) x parallelism / batch mode / capacity (thorough: adaptive batching and a 1+1 remote layout) x every schedule within the deviation bound: if the injected panic fired, execute_blocking must fail (on every host), no sink downstream of the failed replica may publish anything, any other sink only its complete result, and every remaining task must finish (a worker left blocked is a detected deadlock); if it did not fire the job must give its normal result; half of the injected faults unwind with a payload that is not a string; a job over an endless source (stream_iter(0..)) must be brought down by the fault as well; non-trivial = every scenario (6 input elements)",
        assumptions: &["the fault is a panic in a harness operator placed in the operator chain (stands for a panicking user closure)", "deviation bound as reported"],
        exhaustive_when_uncapped: false,
        budget_s: (55, 1500),
    }
}
