//! C17: watermark progress - the minimum over active upstream replicas is forwarded.
use crate::driver::{PropSpec, Tier};
use crate::explore::Scenario;
use crate::props::start_e2::{scenarios, Oracle};

fn build(tier: Tier) -> Vec<Scenario> {
    scenarios("C17", Oracle::Progress, tier == Tier::Quick)
}

pub fn spec() -> PropSpec {
    PropSpec {
        id: "C17",
        build,
        rule: "the real Start operator (with its WatermarkFrontier) of a block fed by 2-3 upstream replicas through the real channel: every contract-respecting per-replica sequence of timestamped elements and watermarks up to the length bound (replicas with no data, replicas ending early, a second iteration), ALL arrival interleavings including the end-of-iteration markers, two batchings; reference tracker = min over replicas that have not ended their iteration of their latest watermark; whenever it rises to m, Watermark(m) must be output before the next element; non-trivial = every replica sends at least one watermark",
        assumptions: &["sequences up to the stated length, timestamps 0..=4"],
        exhaustive_when_uncapped: true,
        budget_s: (50, 900),
    }
}
