//! C17: watermark progress - the minimum over active upstream replicas is forwarded.
use std::collections::{BTreeMap, BTreeSet};
use std::sync::Arc;

use renoir::operator::StreamElement;
use renoir::prelude::*;
use renoir::verif::observe::Event;
use renoir::{BatchMode, Replication};

use crate::driver::{PropSpec, Tier};
use crate::explore::{hash_of, Check, Fail, Scenario};
use crate::kit::{probe, run_hosts, Layout, ScriptSource, K_FAR, K_TS, K_WM};
use crate::props::common::ORDERS3;
use crate::props::start_e2::{progress_fails, scenarios, Arr, Oracle, Sym};
use crate::rt::{log, EnvParams, Ev, Status};

const PROBE: u32 = 17;
/// probe in front of the connection: what each producer replica hands to its `End`
const PROBE_IN: u32 = 18;

#[derive(Clone, Copy, Debug, PartialEq, Eq)]
enum Conn {
    Shuffle,
    GroupBy,
    Broadcast,
}

/// A job `timestamped source (one scripted sequence per replica) -> connection -> probe`: the
/// arrival sequence at every downstream replica is read off the link observer, the reference
/// tracker runs over it, and the probe right behind the block's `Start` must show each rise of
/// the minimum.
fn job_scenario(iters: Vec<Vec<Vec<Sym>>>, conn: Conn, layout: Layout, bound: usize) -> Scenario {
    job_scenario_in(iters, conn, layout, bound, 0, true)
}

/// The loop-body jobs for C03 (control elements reach every connected replica in every round):
/// only the per-link oracle, not the progress tracker.
pub fn loop_jobs(quick: bool, progress: bool) -> Vec<Scenario> {
    use Sym::{T, W};
    let seq_sets: Vec<Vec<Vec<Vec<Sym>>>> = vec![
        vec![vec![vec![T(1), W(1), T(2), W(2), T(3), W(3)], vec![T(1), W(1), T(3), W(3)], vec![W(2), T(4), W(4)]]],
        vec![vec![vec![W(2), T(3)], vec![], vec![T(1), W(1)]]],
        vec![vec![vec![T(0), W(0), T(1), W(1)], vec![T(2), W(2)], vec![W(0), W(3)]]],
        vec![vec![vec![T(1), W(2), T(3), T(4), W(4)], vec![W(1), W(2), W(3), T(4)], vec![T(2), W(3)]]],
    ];
    let mut out = vec![];
    for (layout, bound) in [(Layout::Local(2), if quick { 0 } else { 1 }), (Layout::Remote(vec![1, 1]), 0)] {
        for set in &seq_sets[..if quick { 2 } else { 4 }] {
            for conn in [Conn::Shuffle, Conn::GroupBy, Conn::Broadcast] {
                let set2: Vec<Vec<Vec<Sym>>> = set.iter().map(|it| it[..layout.total_cores() as usize].to_vec()).collect();
                out.push(job_scenario_in(set2, conn, layout.clone(), bound, if quick { 2 } else { 3 }, progress));
            }
        }
    }
    out
}

/// `rounds` > 0: the connection and the probes sit inside the body of `replay(rounds, ..)`, which
/// feeds the same timestamped input (watermarks included) to every round - event time starts
/// over in each of them, and the loop protocol keeps the rounds of different replicas apart.
fn job_scenario_in(iters: Vec<Vec<Vec<Sym>>>, conn: Conn, layout: Layout, bound: usize, rounds: usize, progress: bool) -> Scenario {
    let n = layout.total_cores() as usize;
    let name = format!("C17/job{}/{:?}/{}/{:?}", if rounds > 0 { format!("-replay{rounds}") } else { String::new() }, conn, layout.name(), iters).replace(' ', "");
    let descr = format!("timestamped source with per-iteration, per-replica sequences {:?} (T = element, W = watermark) -> {}probe -> {:?} -> probe, layout {}", iters, if rounds > 0 { format!("replay with {rounds} rounds of the body: ") } else { String::new() }, conn, layout.name());
    let it2 = iters.clone();
    let l2 = layout.clone();
    let body: crate::rt::Body = Arc::new(move || {
        let it3 = it2.clone();
        let res = run_hosts(
            &l2,
            Arc::new(move |_host, env| {
                let mut scripts: Vec<Vec<StreamElement<i64>>> = vec![vec![]; n];
                for it in &it3 {
                    for r in 0..n {
                        if let Some(seq) = it.get(r) {
                            for (j, s) in seq.iter().enumerate() {
                                scripts[r].push(match s {
                                    Sym::T(t) => StreamElement::Timestamped((r * 100 + j) as i64, *t),
                                    Sym::W(w) => StreamElement::Watermark(*w),
                                });
                            }
                        }
                        scripts[r].push(StreamElement::FlushAndRestart);
                    }
                }
                let s = env.stream(ScriptSource::new(scripts, Replication::Unlimited)).batch_mode(BatchMode::fixed(1));
                if rounds == 0 {
                    let s = probe(s, PROBE_IN);
                    match conn {
                        Conn::Shuffle => probe(s.shuffle(), PROBE).for_each(|_| {}),
                        Conn::GroupBy => probe(s.group_by(|x: &i64| x % 2).0, PROBE).for_each(|_| {}),
                        Conn::Broadcast => probe(s.broadcast(), PROBE).for_each(|_| {}),
                    }
                } else {
                    let body = move |s: renoir::Stream<_>, _st: renoir::operator::iteration::IterationStateHandle<i64>| {
                        let s = probe(s, PROBE_IN);
                        match conn {
                            // (the end of a loop body takes no timestamped elements)
                            Conn::Shuffle => crate::kit::erase(probe(s.shuffle(), PROBE).drop_timestamps()),
                            Conn::GroupBy => crate::kit::erase(probe(s.group_by(|x: &i64| x % 2).0, PROBE).map(|kv: (i64, i64)| kv.1).drop_timestamps()),
                            Conn::Broadcast => crate::kit::erase(probe(s.broadcast(), PROBE).drop_timestamps()),
                        }
                    };
                    s.replay(rounds, 0i64, body, |d: &mut i64, _x: i64| *d += 1, |st: &mut i64, d: i64| *st += d, |_st: &mut i64| true)
                        .for_each(|_| {});
                }
                env.execute_blocking();
            }),
        );
        for (h, r) in res.into_iter().enumerate() {
            if let Some(p) = r {
                log(Ev::Text("host-panic", format!("{h}: {p}")));
            }
        }
    });
    let d2 = descr.clone();
    let check: Check = Arc::new(move |r| {
        if r.status != Status::Done {
            return Err(Fail::new("c17-job-abnormal", format!("{d2}: {:?}", r.status)));
        }
        for e in &r.log {
            if let Ev::Text("host-panic", t) = e {
                return Err(Fail::new("c17-job-panic", format!("{d2}: {t}")));
            }
        }
        // the probed block and its replicas
        let mut consumers: BTreeSet<(u64, u64, u64)> = BTreeSet::new();
        for e in &r.log {
            if let Ev::Probe(PROBE, c, ..) = e {
                consumers.insert(*c);
            }
        }
        if consumers.len() != n {
            return Err(Fail::new("c17-job-replicas", format!("{d2}: {} downstream replicas were seen, {n} expected", consumers.len())));
        }
        // every watermark a producer replica hands to its End reaches every downstream replica,
        // in order, in every iteration (End broadcasts control elements whatever the connection
        // does with the data)
        let mut handed: BTreeMap<(u64, u64, u64), Vec<i64>> = BTreeMap::new();
        let mut carried: BTreeMap<((u64, u64, u64), (u64, u64, u64)), Vec<i64>> = BTreeMap::new();
        for e in &r.log {
            match e {
                Ev::Probe(PROBE_IN, pc, k, ts, _) => {
                    let v = handed.entry(*pc).or_default();
                    if *k == K_WM {
                        v.push(ts.unwrap());
                    } else if *k == K_FAR {
                        v.push(i64::MIN);
                    }
                }
                Ev::Repo(Event::Received { at, from, elems, .. }) if consumers.contains(at) => {
                    let v = carried.entry((*from, *at)).or_default();
                    for el in elems {
                        match el.kind {
                            2 => v.push(el.ts.unwrap()),
                            5 => v.push(i64::MIN),
                            _ => {}
                        }
                    }
                }
                _ => {}
            }
        }
        for (from, seq) in &handed {
            for c in &consumers {
                let got = carried.get(&(*from, *c)).cloned().unwrap_or_default();
                if &got != seq {
                    return Err(Fail::new(
                        "c17-job-watermarks-not-everywhere",
                        format!("{d2}: producer replica {:?} handed the watermarks / ends of iteration {:?} to its End (i64::MIN = end of iteration), downstream replica {:?} received {:?} from it", from, seq, c, got),
                    ));
                }
            }
        }
        if handed.len() != n {
            return Err(Fail::new("c17-job-replicas", format!("{d2}: {} producer replicas were seen, {n} expected", handed.len())));
        }
        let mut wm_seen = 0usize;
        if !progress {
            return Ok(hash_of(&(carried, r.trace.len())));
        }
        for c in &consumers {
            let mut froms: BTreeSet<(u64, u64, u64)> = BTreeSet::new();
            for e in &r.log {
                if let Ev::Repo(Event::Received { at, from, .. }) = e {
                    if at == c {
                        froms.insert(*from);
                    }
                }
            }
            if froms.len() != n {
                return Err(Fail::new("c17-job-upstream", format!("{d2}: replica {:?} heard from {} upstream replicas, {n} exist", c, froms.len())));
            }
            let index: BTreeMap<(u64, u64, u64), usize> = froms.iter().enumerate().map(|(i, f)| (*f, i)).collect();
            let mut arrival: Vec<(usize, Arr)> = vec![];
            let mut out: Vec<Arr> = vec![];
            for e in &r.log {
                match e {
                    Ev::Repo(Event::Received { at, from, elems, .. }) if at == c => {
                        for el in elems {
                            match el.kind {
                                1 => arrival.push((index[from], Arr::Data)),
                                2 => arrival.push((index[from], Arr::Wm(el.ts.unwrap()))),
                                5 => arrival.push((index[from], Arr::Far)),
                                _ => {}
                            }
                        }
                    }
                    Ev::Probe(PROBE, pc, k, ts, _) if pc == c => {
                        if *k == K_TS {
                            out.push(Arr::Data);
                        } else if *k == K_WM {
                            wm_seen += 1;
                            out.push(Arr::Wm(ts.unwrap()));
                        } else if *k == K_FAR {
                            out.push(Arr::Far);
                        }
                    }
                    _ => {}
                }
            }
            let fails = progress_fails(n, &arrival, &out, &|| format!("{d2}: downstream replica {:?}, arrival sequence (upstream replica, element) {:?}, observed behind its Start {:?}", c, arrival, out));
            if let Some(f) = fails.into_iter().next() {
                return Err(f);
            }
        }
        Ok(hash_of(&(wm_seen, r.trace.len())))
    });
    Scenario {
        name,
        descr,
        params: EnvParams { random_arity: n, observe_links: true, ..Default::default() },
        body,
        check,
        bound,
        orders: ORDERS3.to_vec(),
        max_execs: 0,
        shards: 1,
        nontrivial: iters.iter().any(|it| it.iter().filter(|s| s.iter().any(|x| matches!(x, Sym::W(_)))).count() >= 2),
        unbounded: false,
        loop_body: false,
        sometimes: vec![],
    }
}

fn build(tier: Tier) -> Vec<Scenario> {
    use Sym::{T, W};
    let mut out = scenarios("C17", Oracle::Progress, tier == Tier::Quick);
    // whole jobs: End must hand every watermark to every downstream replica, whatever the
    // connection sends the data to
    let seq_sets: Vec<Vec<Vec<Vec<Sym>>>> = vec![
        vec![vec![vec![T(1), W(1), T(2), W(2), T(3), W(3)], vec![T(1), W(1), T(3), W(3)], vec![W(2), T(4), W(4)]]],
        vec![vec![vec![W(2), T(3)], vec![], vec![T(1), W(1)]]],
        vec![vec![vec![T(0), W(0), T(1), W(1)], vec![T(2), W(2)], vec![W(0), W(3)]]],
        // (one iteration only: nothing but a loop aligns the iterations of different source
        // replicas, so a scripted second iteration of one replica could overtake the first of
        // another - an input no real job produces; several iterations are covered by part (1))
        vec![vec![vec![T(1), W(2), T(3), T(4), W(4)], vec![W(1), W(2), W(3), T(4)], vec![T(2), W(3)]]],
    ];
    let layouts: Vec<(Layout, usize)> = if tier == Tier::Quick {
        vec![(Layout::Local(2), 1), (Layout::Local(3), 0), (Layout::Remote(vec![1, 1]), 0)]
    } else {
        vec![(Layout::Local(2), 2), (Layout::Local(3), 1), (Layout::Remote(vec![1, 1]), 1), (Layout::Remote(vec![2, 1]), 1)]
    };
    // two-input blocks: with batches waiting on both inputs, either side can be served next -
    // a side that is never looked at while the other has data holds its watermarks (and its end)
    // back. Both inputs are filled before the block runs; every answer of the select is explored.
    for (nl, nr) in [(3usize, 2usize), (1, 3)] {
        let mut sc = crate::e2::select_scenario(
            format!("C17/two-input-service/L{nl}-R{nr}"),
            format!("merge of a left input with {nl} timestamped elements and a right input with {nr}, each followed by its watermark, both inputs filled before the block starts, every answer of the two-way select"),
            Arc::new(move || {
                let side = |n: usize, base: i64| -> Vec<Vec<StreamElement<i64>>> {
                    let mut b: Vec<Vec<StreamElement<i64>>> = vec![];
                    for k in 0..n {
                        b.push(vec![StreamElement::Timestamped(base + k as i64, k as i64)]);
                        b.push(vec![StreamElement::Watermark(k as i64)]);
                    }
                    b.push(vec![StreamElement::FlushAndRestart]);
                    b.push(vec![StreamElement::Terminate]);
                    b
                };
                let env = renoir::StreamContext::new(renoir::RuntimeConfig::local(1).unwrap());
                let s1 = env.stream(ScriptSource::<i64>::new(vec![], Replication::One));
                let s2 = env.stream(ScriptSource::<i64>::new(vec![], Replication::One));
                let out = crate::e2::drive_binary(s1.merge(s2).verif_into_chain(), vec![side(nl, 0)], vec![side(nr, 100)]);
                let data: Vec<i64> = out.iter().filter_map(|e| if let StreamElement::Timestamped(v, _) = e { Some(*v) } else { None }).collect();
                log(Ev::Note("service-order", data.clone()));
                if data.len() != nl + nr {
                    return Some(Fail::new("c17-two-input-conservation", format!("merge emitted {:?}", data)));
                }
                None
            }),
        );
        let order = |r: &crate::rt::ExecResult| -> Vec<i64> {
            r.log.iter().find_map(|e| if let Ev::Note("service-order", v) = e { Some(v.clone()) } else { None }).unwrap_or_default()
        };
        sc.sometimes = vec![
            (
                "c17-side-starved".to_string(),
                "is an element of the right input served before the last element of the left input (the right input is starved while the left one has data)".to_string(),
                Arc::new(move |r| {
                    let o = order(r);
                    let last_left = o.iter().rposition(|v| *v < 100);
                    let first_right = o.iter().position(|v| *v >= 100);
                    matches!((last_left, first_right), (Some(l), Some(f)) if f < l)
                }),
            ),
            (
                "c17-side-starved".to_string(),
                "is an element of the left input served before the last element of the right input (the left input is starved while the right one has data)".to_string(),
                Arc::new(move |r| {
                    let o = order(r);
                    let last_right = o.iter().rposition(|v| *v >= 100);
                    let first_left = o.iter().position(|v| *v < 100);
                    matches!((last_right, first_left), (Some(l), Some(f)) if f < l)
                }),
            ),
        ];
        out.push(sc);
    }
    for (layout, bound) in layouts {
        for set in &seq_sets {
            for conn in [Conn::Shuffle, Conn::GroupBy, Conn::Broadcast] {
                out.push(job_scenario(set.clone(), conn, layout.clone(), bound));
            }
        }
    }
    // the same connection inside a loop body: watermarks cross the boundary in every round
    out.extend(loop_jobs(tier == Tier::Quick, true));
    // slow sources and timed batching: control elements still reach every replica in time
    out.extend(crate::props::timed::scenarios("C17", tier == Tier::Quick, "C17"));
    out
}

pub fn spec() -> PropSpec {
    PropSpec {
        id: "C17",
        build,
        rule: "(1) the real Start operator (with its WatermarkFrontier) of a block fed by 2-3 upstream replicas through the real channel: every contract-respecting per-replica sequence of timestamped elements and watermarks up to the length bound (replicas with no data, replicas ending early, a second iteration), ALL arrival interleavings including the end-of-iteration markers, two batchings; reference tracker = min over replicas that have not ended their iteration of their latest watermark; whenever it rises to m, Watermark(m) must be output before the next element; (2) whole jobs timestamped source -> shuffle / group_by / broadcast -> probe on local 2-3 and two-host layouts under schedule exploration: the arrival sequence at every downstream replica is taken from the link observer and the same reference tracker is run over it (End must hand each watermark to every downstream replica); non-trivial = at least two replicas send watermarks",
        assumptions: &["sequences up to the stated length, timestamps 0..=4", "deviation bound as reported for the job scenarios"],
        exhaustive_when_uncapped: false,
        budget_s: (50, 900),
    }
}
