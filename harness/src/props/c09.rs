//! C09: fan-out and fan-in operators: split, route, merge, zip, broadcast.
use std::collections::BTreeMap;
use std::sync::Arc;

use renoir::operator::StreamElement;
use renoir::prelude::*;
use renoir::{BatchMode, Replication};

use crate::driver::{PropSpec, Tier};
use crate::explore::{hash_of, Check, Fail, Scenario};
use crate::kit::{log_sink, probe, sink_rows, Layout, ScriptSource};
use crate::props::common::ORDERS3;
use crate::rt::{EnvParams, Ev, Kind, Status};

#[derive(Clone, Debug, PartialEq)]
enum Job {
    Split(usize),
    /// route: key<2 -> r0, key<4 -> r1 (overlapping: key<2 matches both), else dropped; third route never matches
    Route(usize),
    MergeSources,
    MergeDiamond { shuffle_one: bool },
    /// diamond whose second branch lets through almost nothing (x % 7 == 6): one input of the
    /// merge stays silent while the other is flooded
    MergeSilentBranch,
    Broadcast,
    /// zip of two sources with the given lengths; sequential (single replica sources) or parallel
    Zip { a: usize, b: usize, parallel: bool },
}

fn items(n: usize, base: i64) -> Vec<StreamElement<i64>> {
    (0..n as i64).map(|i| StreamElement::Item(base + i)).collect()
}

fn spread(n: usize, base: i64, p: u64) -> Vec<Vec<StreamElement<i64>>> {
    let mut v = vec![vec![]; p as usize];
    for i in 0..n {
        v[i % p as usize].push(StreamElement::Item(base + i as i64));
    }
    v
}

fn scenario(job: Job, n: usize, p: u64, cap: usize, batch: BatchMode, bound: usize) -> Scenario {
    scenario_on(job, n, Layout::Local(p), cap, batch, bound)
}

fn scenario_on(job: Job, n: usize, layout: Layout, cap: usize, batch: BatchMode, bound: usize) -> Scenario {
    let p = layout.total_cores();
    let lname = if layout.hosts() == 1 { format!("p{p}") } else { layout.name() };
    let name = format!("C09/{:?}/n{n}/{lname}/cap{cap}/{:?}", job, batch).replace(' ', "");
    let descr = format!("{:?} over {n} elements, layout {}, channel capacity {}, batch mode {:?}", job, layout.name(), if cap == 0 { 16 } else { cap }, batch);
    let job2 = job.clone();
    let body: crate::rt::Body = Arc::new(move || {
      let job2 = job2.clone();
      let res = crate::kit::run_hosts(&layout, Arc::new(move |host, env| {
        let par = |n: usize, base: i64| env.stream(ScriptSource::new(spread(n, base, p), Replication::Unlimited)).batch_mode(batch);
        let seq = |n: usize, base: i64| env.stream(ScriptSource::new(vec![items(n, base)], Replication::One)).batch_mode(batch);
        match &job2 {
            Job::Split(k) => {
                let v = par(n, 0).split(*k);
                let outs: Vec<_> = v.into_iter().map(|s| s.collect_vec()).collect();
                env.execute_blocking();
                for (i, o) in outs.into_iter().enumerate() {
                    log_sink(["out0", "out1", "out2"][i], host, o.get());
                }
            }
            Job::Route(k) => {
                let mut b = par(n, 0).route().add_route(|x: &i64| x % 6 < 2).add_route(|x: &i64| x % 6 < 4);
                if *k == 3 {
                    b = b.add_route(|x: &i64| x % 6 < 1);
                }
                let outs: Vec<_> = b.build().into_iter().map(|s| s.collect_vec()).collect();
                env.execute_blocking();
                for (i, o) in outs.into_iter().enumerate() {
                    log_sink(["out0", "out1", "out2"][i], host, o.get());
                }
            }
            Job::MergeSources => {
                let o = par(n, 0).merge(par(n / 2 + 1, 100)).collect_vec();
                env.execute_blocking();
                log_sink("out0", host, o.get());
            }
            Job::MergeDiamond { shuffle_one } => {
                let mut v = par(n, 0).split(2);
                let b = v.pop().unwrap().map(|x| x + 1000);
                let a = v.pop().unwrap();
                let o = if *shuffle_one {
                    a.shuffle().merge(b.shuffle()).collect_vec()
                } else {
                    a.merge(b).collect_vec()
                };
                env.execute_blocking();
                log_sink("out0", host, o.get());
            }
            Job::MergeSilentBranch => {
                let mut v = par(n, 0).split(2);
                let b = v.pop().unwrap().filter(|x| x % 7 == 6).map(|x| x + 1000);
                let a = v.pop().unwrap();
                let o = a.merge(b).collect_vec();
                env.execute_blocking();
                log_sink("out0", host, o.get());
            }
            Job::Broadcast => {
                probe(par(n, 0).broadcast(), 5).for_each(|_| {});
                env.execute_blocking();
            }
            Job::Zip { a, b, parallel } => {
                let o = if *parallel {
                    par(*a, 0).zip(par(*b, 100)).collect_vec()
                } else {
                    seq(*a, 0).zip(seq(*b, 100)).collect_vec()
                };
                env.execute_blocking();
                log_sink("pairs", host, o.get());
            }
        }
      }));
      for (h, r) in res.into_iter().enumerate() {
          if let Some(p) = r {
              crate::rt::log(Ev::Text("host-panic", format!("{h}: {p}")));
          }
      }
    });
    let d2 = descr.clone();
    let job3 = job.clone();
    let check: Check = Arc::new(move |r| {
        if r.status != Status::Done {
            return Err(Fail::new(format!("c09-{}-abnormal", tag(&job3)), format!("{d2}: {:?}", r.status)));
        }
        for e in &r.log {
            if let Ev::Text("host-panic", t) = e {
                return Err(Fail::new(format!("c09-{}-panic", tag(&job3)), format!("{d2}: {t}")));
            }
        }
        let rows = |t: &str| -> Result<Vec<Vec<i64>>, Fail> {
            let (k, rows) = sink_rows(&r.log, t);
            if k != 1 {
                return Err(Fail::new(format!("c09-{}-sink", tag(&job3)), format!("{d2}: sink {t} published {k} times")));
            }
            Ok(rows.unwrap())
        };
        let all: Vec<Vec<i64>> = (0..n as i64).map(|x| vec![x]).collect();
        let bad = |what: &str, got: &Vec<Vec<i64>>, exp: &Vec<Vec<i64>>| Fail::new(format!("c09-{}-{what}", tag(&job3)), format!("{d2}: got {:?}, expected {:?}", got, exp));
        match &job3 {
            Job::Split(k) => {
                for i in 0..*k {
                    let got = rows(["out0", "out1", "out2"][i])?;
                    if got != all {
                        return Err(bad("branch-incomplete", &got, &all));
                    }
                }
            }
            Job::Route(k) => {
                let exp0: Vec<Vec<i64>> = all.iter().filter(|x| x[0] % 6 < 2).cloned().collect();
                let exp1: Vec<Vec<i64>> = all.iter().filter(|x| x[0] % 6 >= 2 && x[0] % 6 < 4).cloned().collect();
                let g0 = rows("out0")?;
                let g1 = rows("out1")?;
                if g0 != exp0 {
                    return Err(bad("route0", &g0, &exp0));
                }
                if g1 != exp1 {
                    return Err(bad("route1", &g1, &exp1));
                }
                if *k == 3 {
                    let g2 = rows("out2")?;
                    if !g2.is_empty() {
                        return Err(bad("route2-shadowed", &g2, &vec![]));
                    }
                }
            }
            Job::MergeSources => {
                let mut exp = all.clone();
                exp.extend((0..(n / 2 + 1) as i64).map(|x| vec![100 + x]));
                exp.sort();
                let got = rows("out0")?;
                if got != exp {
                    return Err(bad("union", &got, &exp));
                }
            }
            Job::MergeDiamond { .. } => {
                let mut exp = all.clone();
                exp.extend((0..n as i64).map(|x| vec![1000 + x]));
                exp.sort();
                let got = rows("out0")?;
                if got != exp {
                    return Err(bad("union", &got, &exp));
                }
            }
            Job::MergeSilentBranch => {
                let mut exp = all.clone();
                exp.extend((0..n as i64).filter(|x| x % 7 == 6).map(|x| vec![1000 + x]));
                exp.sort();
                let got = rows("out0")?;
                if got != exp {
                    return Err(bad("union", &got, &exp));
                }
            }
            Job::Broadcast => {
                let mut per: BTreeMap<(u64, u64, u64), Vec<i64>> = BTreeMap::new();
                for e in &r.log {
                    if let Ev::Probe(5, c, k, _, pl) = e {
                        let v = per.entry(*c).or_default();
                        if *k <= 1 {
                            v.push(pl[0]);
                        }
                    }
                }
                if per.len() != p as usize {
                    return Err(Fail::new("c09-broadcast-replicas", format!("{d2}: {} downstream replicas saw the stream, {p} exist", per.len())));
                }
                for (c, v) in per.iter_mut() {
                    v.sort();
                    if *v != (0..n as i64).collect::<Vec<_>>() {
                        return Err(Fail::new("c09-broadcast-incomplete", format!("{d2}: downstream replica {:?} received {:?}", c, v)));
                    }
                }
            }
            Job::Zip { a, b, parallel } => {
                let got = rows("pairs")?;
                let m = (*a).min(*b);
                if got.len() != m {
                    return Err(Fail::new("c09-zip-count", format!("{d2}: {} pairs, min(|a|,|b|) = {m}: {:?}", got.len(), got)));
                }
                let mut ls: Vec<i64> = got.iter().map(|x| x[0]).collect();
                let mut rs: Vec<i64> = got.iter().map(|x| x[1]).collect();
                ls.sort();
                rs.sort();
                if ls.windows(2).any(|w| w[0] == w[1]) || rs.windows(2).any(|w| w[0] == w[1]) {
                    return Err(Fail::new("c09-zip-reuse", format!("{d2}: an element was used twice: {:?}", got)));
                }
                if ls.iter().any(|x| *x < 0 || *x >= *a as i64) || rs.iter().any(|x| *x < 100 || *x >= 100 + *b as i64) {
                    return Err(Fail::new("c09-zip-phantom", format!("{d2}: pairs {:?}", got)));
                }
                if !*parallel {
                    let exp: Vec<Vec<i64>> = (0..m as i64).map(|i| vec![i, 100 + i]).collect();
                    if got != exp {
                        return Err(Fail::new("c09-zip-not-positional", format!("{d2}: pairs {:?}, positional pairing gives {:?}", got, exp)));
                    }
                }
            }
        }
        let notes: Vec<&Ev> = r.log.iter().filter(|e| matches!(e, Ev::Note(..))).collect();
        Ok(hash_of(&(notes, r.trace.len())))
    });
    Scenario {
        name,
        descr,
        params: EnvParams { channel_capacity: cap, random_arity: p as usize, free_kinds: vec![Kind::Driver], ..Default::default() },
        body,
        check,
        bound,
        orders: ORDERS3.to_vec(),
        max_execs: 0,
        shards: 1,
        nontrivial: n > 0,
        unbounded: false,
        loop_body: false,
        sometimes: vec![],
    }
}

fn tag(j: &Job) -> &'static str {
    match j {
        Job::Split(_) => "split",
        Job::Route(_) => "route",
        Job::MergeSources | Job::MergeDiamond { .. } | Job::MergeSilentBranch => "merge",
        Job::Broadcast => "broadcast",
        Job::Zip { .. } => "zip",
    }
}

fn build(tier: Tier) -> Vec<Scenario> {
    let mut out = vec![];
    let bound = if tier == Tier::Quick { 1 } else { 2 };
    let cfgs: Vec<(u64, usize, BatchMode)> = if tier == Tier::Quick {
        vec![(1, 0, BatchMode::fixed(2)), (2, 0, BatchMode::fixed(1)), (2, 1, BatchMode::single())]
    } else {
        vec![(1, 0, BatchMode::fixed(2)), (2, 0, BatchMode::fixed(1)), (2, 1, BatchMode::single()), (3, 1, BatchMode::single()), (3, 0, BatchMode::fixed(2))]
    };
    for (p, cap, batch) in cfgs {
        for n in [0usize, 7] {
            for job in [Job::Split(2), Job::Split(3), Job::Route(2), Job::Route(3), Job::MergeSources, Job::MergeDiamond { shuffle_one: false }, Job::MergeDiamond { shuffle_one: true }, Job::MergeSilentBranch, Job::Broadcast] {
                out.push(scenario(job, n, p, cap, batch, bound));
            }
        }
        for a in 0..=3usize {
            for b in 0..=3usize {
                out.push(scenario(Job::Zip { a, b, parallel: false }, a.max(b), p, cap, batch, bound));
                if p > 1 {
                    out.push(scenario(Job::Zip { a, b, parallel: true }, a.max(b), p, cap, batch, bound));
                }
            }
        }
    }
    // zip with timed receives: a FlushBatch can reach the zip while one side has run ahead and
    // the other has almost caught up (element-sized batches, early timer firings as deviations)
    for (a, b) in [(6usize, 6usize), (6, 5), (5, 6), (8, 8)] {
        if tier == Tier::Quick && a == 8 {
            continue;
        }
        out.push(scenario(Job::Zip { a, b, parallel: false }, a.max(b), 1, 0, BatchMode::adaptive(1, std::time::Duration::from_millis(10)), bound));
        out.push(scenario(Job::Zip { a, b, parallel: false }, a.max(b), 2, 0, BatchMode::adaptive(2, std::time::Duration::from_millis(10)), bound));
    }
    out.push(zip_timed(if tier == Tier::Quick { 7 } else { 10 }));
    // two hosts: split/route/merge/broadcast/zip across the (virtual) network
    for layout in [Layout::Remote(vec![1, 1]), Layout::Remote(vec![2, 1])] {
        if tier == Tier::Quick && layout.total_cores() == 3 {
            continue;
        }
        let b = if tier == Tier::Quick { 0 } else { 1 };
        for job in [Job::Split(2), Job::Route(3), Job::MergeSources, Job::MergeDiamond { shuffle_one: false }, Job::MergeDiamond { shuffle_one: true }, Job::Broadcast] {
            out.push(scenario_on(job, 7, layout.clone(), 0, BatchMode::fixed(2), b));
        }
        for (a, bb) in [(3usize, 3usize), (3, 1), (0, 2)] {
            out.push(scenario_on(Job::Zip { a, b: bb, parallel: false }, a.max(bb), layout.clone(), 0, BatchMode::fixed(2), b));
            out.push(scenario_on(Job::Zip { a, b: bb, parallel: true }, a.max(bb), layout.clone(), 0, BatchMode::fixed(2), b));
        }
    }
    // zip of timestamped streams with watermarks, through the real two-input Start: every
    // interleaving of the two sides (all answers of the two-way select)
    for a in 0..=2usize {
        for b in 0..=2usize {
            for off in [0i64, 2] {
                out.push(zip_timestamped(a, b, off));
            }
        }
    }
    // one side thousands of elements ahead of the other (the whole left input, then the whole
    // right one, and the other way round via the select's default answers), more than any
    // internal stash size
    for (a, b) in [(2000usize, 1500usize), (1500, 2000)] {
        let mut s = zip_timestamped(a, b, 0);
        s.params.free_kinds = vec![crate::rt::Kind::Driver];
        s.params.channel_capacity = 10_000;
        s.descr = format!("zip of {a} left and {b} right timestamped elements, a watermark after every element, default answers of the select (one side runs far ahead)");
        out.push(s);
    }
    if tier == Tier::Quick {
        crate::props::common::deepen(&mut out, &|n| n.contains("/p2/") && n.contains("/n2/"));
    }
    out
}

pub fn zip_timestamped(a: usize, b: usize, off: i64) -> Scenario {
    use crate::e2::{drive_binary, select_scenario, shape, watermark_safety};
    use renoir::{RuntimeConfig, StreamContext};
    let name = format!("C09/zip-timestamped/a{a}-b{b}-off{off}");
    let descr = format!("zip of {a} left elements (timestamps 0..) and {b} right elements (timestamps {off}..), a watermark after every element, every interleaving of the two sides");
    select_scenario(name, descr.clone(), Arc::new(move || {
        let side = |n: usize, base: i64, off: i64| -> Vec<Vec<StreamElement<i64>>> {
            let mut v = vec![];
            for i in 0..n as i64 {
                v.push(vec![StreamElement::Timestamped(base + i, off + i)]);
                v.push(vec![StreamElement::Watermark(off + i)]);
            }
            v.push(vec![StreamElement::FlushAndRestart]);
            v.push(vec![StreamElement::Terminate]);
            v
        };
        let env = StreamContext::new(RuntimeConfig::local(1).unwrap());
        let s1 = env.stream(ScriptSource::<i64>::new(vec![], Replication::One));
        let s2 = env.stream(ScriptSource::<i64>::new(vec![], Replication::One));
        let out = drive_binary(s1.zip(s2).verif_into_chain(), vec![side(a, 0, 0)], vec![side(b, 100, off)]);
        let pairs: Vec<(i64, i64)> = out.iter().filter_map(|e| match e {
            StreamElement::Timestamped(p, _) | StreamElement::Item(p) => Some(*p),
            _ => None,
        }).collect();
        let exp: Vec<(i64, i64)> = (0..a.min(b) as i64).map(|i| (i, 100 + i)).collect();
        if pairs != exp {
            return Some(Fail::new(
                if pairs.len() != exp.len() { "c09-zip-count" } else { "c09-zip-not-positional" },
                if exp.len() > 20 {
                    let first = pairs.iter().zip(exp.iter()).position(|(x, y)| x != y);
                    format!("{descr}: {} pairs, expected {}; the first difference is at position {:?}", pairs.len(), exp.len(), first)
                } else {
                    format!("{descr}: pairs {:?}, expected {:?}", pairs, exp)
                },
            ));
        }
        if let Some((sig, msg)) = watermark_safety(&shape(&out)) {
            return Some(Fail::new(format!("c09-zip-{sig}"), format!("{descr}: {msg}")));
        }
        None
    }))
}

/// zip with timed receives: bursts of one side, bursts of the other, idle periods (the block's
/// `Start` reports a batch timeout) in between.
fn zip_timed(maxn: usize) -> Scenario {
    use crate::e2::{drive_binary_steps, loop_scenario, FailSet, Step};
    use renoir::{RuntimeConfig, StreamContext};
    loop_scenario(
        format!("C09/zip-timed/n{maxn}"),
        format!("zip of two sequential inputs fed in two phases - a burst of a1 left and b1 right element batches (either side first), an idle period, a2 left and b2 right, an idle period, then the ends - for all a1,b1,a2,b2 <= {maxn}, adaptive batching: the block idles (FlushBatch) while one side has run ahead"),
        Arc::new(move || {
            let mut cases = 0;
            let mut nontrivial = 0;
            let mut fails = FailSet::default();
            for a1 in 0..=maxn {
                for b1 in 0..=maxn {
                    for a2 in 0..=maxn.min(3) {
                        for b2 in 0..=maxn.min(3) {
                            for left_first in [true, false] {
                                if fails.full() || crate::e2::out_of_time() {
                                    continue;
                                }
                                cases += 1;
                                if a1.min(b1) >= 1 && a1 != b1 {
                                    nontrivial += 1;
                                }
                                let mut steps: Vec<Step<i64, i64>> = vec![];
                                let (mut l, mut r) = (0i64, 100i64);
                                for (na, nb) in [(a1, b1), (a2, b2)] {
                                    let mut push_l = |steps: &mut Vec<Step<i64, i64>>| {
                                        for _ in 0..na {
                                            steps.push(Step::Left(vec![StreamElement::Item(l)]));
                                            l += 1;
                                        }
                                    };
                                    let mut push_r = |steps: &mut Vec<Step<i64, i64>>| {
                                        for _ in 0..nb {
                                            steps.push(Step::Right(vec![StreamElement::Item(r)]));
                                            r += 1;
                                        }
                                    };
                                    if left_first {
                                        push_l(&mut steps);
                                        push_r(&mut steps);
                                    } else {
                                        push_r(&mut steps);
                                        push_l(&mut steps);
                                    }
                                    steps.push(Step::Idle);
                                }
                                steps.push(Step::Left(vec![StreamElement::FlushAndRestart]));
                                steps.push(Step::Right(vec![StreamElement::FlushAndRestart]));
                                steps.push(Step::Left(vec![StreamElement::Terminate]));
                                steps.push(Step::Right(vec![StreamElement::Terminate]));
                                let env = StreamContext::new(RuntimeConfig::local(1).unwrap());
                                let s1 = env.stream(ScriptSource::<i64>::new(vec![], Replication::One));
                                let s2 = env.stream(ScriptSource::<i64>::new(vec![], Replication::One));
                                let out = drive_binary_steps(s1.zip(s2).verif_into_chain(), steps, BatchMode::adaptive(1024, std::time::Duration::from_millis(10)));
                                let pairs: Vec<(i64, i64)> = out.iter().filter_map(|e| if let StreamElement::Item(p) = e { Some(*p) } else { None }).collect();
                                let n = (a1 + a2).min(b1 + b2) as i64;
                                let exp: Vec<(i64, i64)> = (0..n).map(|i| (i, 100 + i)).collect();
                                if pairs != exp {
                                    fails.add(Some(Fail::new(
                                        if pairs.len() != exp.len() { "c09-zip-count" } else { "c09-zip-not-positional" },
                                        format!("zip, adaptive batching, phase 1: {a1} left / {b1} right batches ({} first), idle, phase 2: {a2} left / {b2} right, idle, ends: pairs {:?}, expected {:?}", if left_first { "left" } else { "right" }, pairs, exp),
                                    )));
                                }
                            }
                        }
                    }
                }
            }
            (cases, nontrivial, fails.first())
        }),
    )
}

pub fn spec() -> PropSpec {
    PropSpec {
        id: "C09",
        build,
        rule: "jobs: split into 2 and 3 branches with a sink each; route with overlapping predicates, an unmatched class and a fully shadowed route; merge of two sources, of the two halves of a split (diamond), with and without shuffles; broadcast with a probe on every downstream replica; zip for all length pairs (a,b) in 0..3 x 0..3 with sequential (positional oracle) and parallel inputs (count = min, no element reused); parallelism 1-3, capacity 16 or 1 (a slow branch back-pressures the split), three canonical orders, every schedule within the deviation bound; non-trivial = non-empty input",
        assumptions: &["deviation bound as reported"],
        exhaustive_when_uncapped: false,
        budget_s: (50, 1500),
    }
}
