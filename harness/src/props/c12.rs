//! C12: count windows are exactly the sliding groups of each key's arrival sequence.
use std::sync::Arc;

use renoir::operator::window::CountWindow;
use renoir::operator::StreamElement;

use crate::driver::{PropSpec, Tier};
use crate::e2::{counted_stream, drive, drive_aligned, loop_scenario, script_stream, sequences, El};
use crate::explore::{Fail, Scenario};

/// What one iteration must emit, in order, for the interleaved arrival sequence `seq` of
/// (key, value) pairs: the reference sliding groups.
fn reference(seq: &[(i64, i64)], n: usize, s: usize, exact: bool) -> (Vec<(i64, Vec<i64>)>, Vec<(i64, Vec<i64>)>) {
    // during: emitted when the N-th element of a group arrives, in arrival order
    let mut during = vec![];
    let mut per_key: std::collections::BTreeMap<i64, Vec<i64>> = Default::default();
    for &(k, v) in seq {
        let e = per_key.entry(k).or_default();
        e.push(v);
        let len = e.len();
        if len >= n && (len - n) % s == 0 {
            during.push((k, e[len - n..].to_vec()));
        }
    }
    // at the end of the iteration: nothing (exact) or the oldest incomplete non-empty group
    let mut at_end = vec![];
    if !exact {
        for (k, e) in &per_key {
            let len = e.len();
            let complete = if len >= n { (len - n) / s + 1 } else { 0 };
            let start = complete * s;
            if start < len {
                at_end.push((*k, e[start..].to_vec()));
            }
        }
    }
    (during, at_end)
}

#[derive(Clone, Copy, Debug, PartialEq)]
enum Agg {
    Collect,
    Sum,
    Count,
    First,
    Last,
    Max,
    Min,
    /// max_by_key / min_by_key / max_by / min_by with the scrambling key (v * 7) % 13
    MaxByKey,
    MinByKey,
    MaxBy,
    MinBy,
    /// fold(0, acc * 3 + v): sensitive to the order inside the window
    Fold,
    FoldFirst,
}

fn scramble(v: &i64) -> i64 {
    (v * 7) % 13
}

fn apply(agg: Agg, g: &[i64]) -> Vec<i64> {
    match agg {
        Agg::Collect => g.to_vec(),
        Agg::Sum => vec![g.iter().sum()],
        Agg::Count => vec![g.len() as i64],
        Agg::First => vec![g[0]],
        Agg::Last => vec![*g.last().unwrap()],
        Agg::Max => vec![*g.iter().max().unwrap()],
        Agg::Min => vec![*g.iter().min().unwrap()],
        Agg::MaxByKey | Agg::MaxBy => vec![*g.iter().max_by_key(|v| scramble(v)).unwrap()],
        Agg::MinByKey | Agg::MinBy => vec![*g.iter().min_by_key(|v| scramble(v)).unwrap()],
        Agg::Fold => vec![g.iter().fold(0i64, |a, v| (a * 3 + v) % 1_000_003)],
        Agg::FoldFirst => vec![g[1..].iter().fold(g[0], |a, v| (a * 3 + v) % 1_000_003)],
    }
}

fn run_real(script: Vec<El<(i64, i64)>>, n: usize, s: usize, exact: bool, agg: Agg) -> Vec<El<(i64, Vec<i64>)>> {
    let w = script_stream(script).to_keyed().window(CountWindow::new(n, s, exact));
    match agg {
        Agg::Collect => drive(w.map(|v: Vec<i64>| v).0.verif_into_chain().chain),
        Agg::Sum => drive(w.sum::<i64>().map(|(_, v)| vec![v]).0.verif_into_chain().chain),
        Agg::Count => drive(w.count().map(|(_, v)| vec![v as i64]).0.verif_into_chain().chain),
        Agg::First => drive(w.first().map(|(_, v)| vec![v]).0.verif_into_chain().chain),
        Agg::Last => drive(w.last().map(|(_, v)| vec![v]).0.verif_into_chain().chain),
        Agg::Max => drive(w.max().map(|(_, v)| vec![v]).0.verif_into_chain().chain),
        Agg::Min => drive(w.min().map(|(_, v)| vec![v]).0.verif_into_chain().chain),
        Agg::MaxByKey => drive(w.max_by_key(scramble).map(|(_, v)| vec![v]).0.verif_into_chain().chain),
        Agg::MinByKey => drive(w.min_by_key(scramble).map(|(_, v)| vec![v]).0.verif_into_chain().chain),
        Agg::MaxBy => drive(w.max_by(|a, b| scramble(a).cmp(&scramble(b))).map(|(_, v)| vec![v]).0.verif_into_chain().chain),
        Agg::MinBy => drive(w.min_by(|a, b| scramble(a).cmp(&scramble(b))).map(|(_, v)| vec![v]).0.verif_into_chain().chain),
        Agg::Fold => drive(w.fold(0i64, |a, v| *a = (*a * 3 + v) % 1_000_003).map(|(_, v)| vec![v]).0.verif_into_chain().chain),
        Agg::FoldFirst => drive(w.fold_first(|a, v| *a = (*a * 3 + v) % 1_000_003).map(|(_, v)| vec![v]).0.verif_into_chain().chain),
    }
}

/// One case: a history over {A, B, FAR}; values are the positions; optionally timestamped.
fn check_case(hist: &[usize], n: usize, s: usize, exact: bool, agg: Agg, timestamped: bool) -> Option<Fail> {
    let mut script: Vec<El<(i64, i64)>> = vec![];
    let mut iters: Vec<Vec<(i64, i64)>> = vec![vec![]];
    for (i, &h) in hist.iter().enumerate() {
        if h == 2 {
            script.push(StreamElement::FlushAndRestart);
            iters.push(vec![]);
        } else {
            let kv = (h as i64, i as i64 + 1);
            iters.last_mut().unwrap().push(kv);
            if timestamped {
                script.push(StreamElement::Timestamped(kv, i as i64));
            } else {
                script.push(StreamElement::Item(kv));
            }
        }
    }
    // a history that does not end with FAR gets one appended by the source
    let out = run_real(script, n, s, exact, agg);
    // split the output at FlushAndRestart
    let mut got: Vec<Vec<(i64, Vec<i64>, Option<i64>)>> = vec![vec![]];
    let mut terminated = false;
    for e in &out {
        match e {
            StreamElement::Item((k, v)) => got.last_mut().unwrap().push((*k, v.clone(), None)),
            StreamElement::Timestamped((k, v), t) => got.last_mut().unwrap().push((*k, v.clone(), Some(*t))),
            StreamElement::FlushAndRestart => got.push(vec![]),
            StreamElement::Terminate => terminated = true,
            _ => {}
        }
    }
    let descr = || format!("N={n} S={s} exact={exact} agg={agg:?} ts={timestamped} history={:?} (0/1 = element of key 0/1, 2 = end of iteration)", hist);
    if !terminated {
        return Some(Fail::new("c12-no-terminate", format!("{}: no Terminate", descr())));
    }
    got.pop(); // what follows the last FAR
    if hist.last() == Some(&2) || hist.is_empty() {
        // script ended with FAR (or is empty): the source adds nothing more (empty: FAR only)
    }
    let n_iters = if hist.last() == Some(&2) { iters.len() - 1 } else { iters.len() };
    let n_iters = n_iters.max(1);
    if got.len() != n_iters {
        return Some(Fail::new(
            "c12-iterations",
            format!("{}: output has {} iterations, input has {}", descr(), got.len(), n_iters),
        ));
    }
    for (it, seq) in iters.iter().take(n_iters).enumerate() {
        let (during, at_end) = reference(seq, n, s, exact);
        let g = &got[it];
        // results emitted during the iteration come first, in order; the flush results come last
        // (their mutual order across keys is unspecified)
        if g.len() != during.len() + at_end.len() {
            return Some(Fail::new(
                if g.len() > during.len() + at_end.len() { "c12-extra-result" } else { "c12-missing-result" },
                format!("{}: iteration {it} emitted {:?}, expected {:?} then (any order) {:?}", descr(), g, during, at_end),
            ));
        }
        for (i, (k, grp)) in during.iter().enumerate() {
            if g[i].0 != *k || g[i].1 != apply(agg, grp) {
                return Some(Fail::new(
                    "c12-wrong-group",
                    format!("{}: iteration {it} result {i} is {:?}, expected key {k} group {:?}", descr(), g[i], grp),
                ));
            }
        }
        let mut tail: Vec<(i64, Vec<i64>)> = g[during.len()..].iter().map(|x| (x.0, x.1.clone())).collect();
        tail.sort();
        let mut exp: Vec<(i64, Vec<i64>)> = at_end.iter().map(|(k, grp)| (*k, apply(agg, grp))).collect();
        exp.sort();
        if tail != exp {
            return Some(Fail::new(
                "c12-wrong-flush",
                format!("{}: iteration {it} flushed {:?}, expected {:?}", descr(), tail, exp),
            ));
        }
    }
    None
}

/// Histories that also contain watermarks and batch flushes (symbols 3 and 4) between the
/// elements of a timestamped stream: control elements change nothing, and every complete group is
/// emitted before the source is asked for the element after its N-th one.
fn check_case_ctl(hist: &[usize], n: usize, s: usize, exact: bool) -> Option<Fail> {
    let mut script: Vec<El<(i64, i64)>> = vec![];
    // per iteration: (key, value, position in the script)
    let mut iters: Vec<Vec<(i64, i64, usize)>> = vec![vec![]];
    for (i, &h) in hist.iter().enumerate() {
        match h {
            2 => {
                script.push(StreamElement::FlushAndRestart);
                iters.push(vec![]);
            }
            3 => script.push(StreamElement::Watermark(i as i64 - 1)),
            4 => script.push(StreamElement::FlushBatch),
            _ => {
                let kv = (h as i64, i as i64 + 1);
                iters.last_mut().unwrap().push((kv.0, kv.1, i));
                script.push(StreamElement::Timestamped(kv, i as i64));
            }
        }
    }
    let (st, counter) = counted_stream(script);
    let w = st.to_keyed().window(CountWindow::new(n, s, exact));
    let out = drive_aligned(w.map(|v: Vec<i64>| v).0.verif_into_chain().chain, &counter);
    let mut got: Vec<Vec<(i64, Vec<i64>, usize)>> = vec![vec![]];
    let mut terminated = false;
    for (c, e) in &out {
        match e {
            StreamElement::Item((k, v)) | StreamElement::Timestamped((k, v), _) => got.last_mut().unwrap().push((*k, v.clone(), *c)),
            StreamElement::FlushAndRestart => got.push(vec![]),
            StreamElement::Terminate => terminated = true,
            _ => {}
        }
    }
    let descr = || format!("N={n} S={s} exact={exact} timestamped history={:?} (0/1 = element of key 0/1, 2 = end of iteration, 3 = watermark, 4 = FlushBatch)", hist);
    if !terminated {
        return Some(Fail::new("c12-no-terminate", format!("{}: no Terminate", descr())));
    }
    got.pop();
    let n_iters = if hist.last() == Some(&2) { iters.len() - 1 } else { iters.len() }.max(1);
    if got.len() != n_iters {
        return Some(Fail::new("c12-iterations", format!("{}: output has {} iterations, input has {}", descr(), got.len(), n_iters)));
    }
    for (it, seq) in iters.iter().take(n_iters).enumerate() {
        let kv: Vec<(i64, i64)> = seq.iter().map(|x| (x.0, x.1)).collect();
        let (during, at_end) = reference(&kv, n, s, exact);
        let g = &got[it];
        if g.len() != during.len() + at_end.len() {
            return Some(Fail::new(
                if g.len() > during.len() + at_end.len() { "c12-extra-result" } else { "c12-missing-result" },
                format!("{}: iteration {it} emitted {:?}, expected {:?} then (any order) {:?}", descr(), g, during, at_end),
            ));
        }
        for (i, (k, grp)) in during.iter().enumerate() {
            if g[i].0 != *k || g[i].1 != *grp {
                return Some(Fail::new("c12-wrong-group", format!("{}: iteration {it} result {i} is {:?}, expected key {k} group {:?}", descr(), g[i], grp)));
            }
            // the group's last element is its N-th: it sits at script position p, so the source
            // has handed out exactly p + 1 elements when the group comes out
            let last = *grp.last().unwrap();
            let p = seq.iter().find(|x| x.1 == last).unwrap().2;
            if g[i].2 != p + 1 {
                return Some(Fail::new(
                    "c12-late-result",
                    format!("{}: iteration {it} group {:?} of key {k} came out after {} source elements, its last element is number {}", descr(), grp, g[i].2, p + 1),
                ));
            }
        }
        let mut tail: Vec<(i64, Vec<i64>)> = g[during.len()..].iter().map(|x| (x.0, x.1.clone())).collect();
        tail.sort();
        let mut exp = at_end.clone();
        exp.sort();
        if tail != exp {
            return Some(Fail::new("c12-wrong-flush", format!("{}: iteration {it} flushed {:?}, expected {:?}", descr(), tail, exp)));
        }
    }
    None
}

fn build(tier: Tier) -> Vec<Scenario> {
    let maxlen = match tier {
        Tier::Quick => 10,
        Tier::Thorough => 14,
    };
    let mut out = vec![];
    for n in 1..=5usize {
        for s in 1..=n {
            for exact in [true, false] {
                {
                    let len = if tier == Tier::Quick { 7 } else { 9 };
                    out.push(loop_scenario(
                        format!("C12/N{n}-S{s}-exact{exact}-control-len{len}"),
                        format!("all histories over {{key0, key1, end-of-iteration, watermark, FlushBatch}} of length <= {len} for size {n} slide {s} exact {exact}, timestamped, with the emission point of every group"),
                        Arc::new(move || {
                            let mut cases = 0;
                            let mut nontrivial = 0;
                            let mut fail = None;
                            for l in 0..=len {
                                sequences(5, l, |h| {
                                    if fail.is_some() {
                                        return;
                                    }
                                    cases += 1;
                                    // non-trivial: a control element between the elements of a key that reaches a complete group
                                    let c0 = h.iter().filter(|x| **x == 0).count();
                                    if c0 >= n && h.iter().any(|x| *x >= 3) {
                                        nontrivial += 1;
                                    }
                                    fail = check_case_ctl(h, n, s, exact);
                                });
                            }
                            (cases, nontrivial, fail)
                        }),
                    ));
                }
                for (agg, ts) in [
                    (Agg::Collect, false),
                    (Agg::Collect, true),
                    (Agg::Sum, false),
                    (Agg::Count, true),
                    (Agg::First, false),
                    (Agg::Last, false),
                    (Agg::Max, false),
                    (Agg::Min, false),
                    (Agg::MaxByKey, false),
                    (Agg::MinByKey, true),
                    (Agg::MaxBy, false),
                    (Agg::MinBy, false),
                    (Agg::Fold, true),
                    (Agg::FoldFirst, false),
                ] {
                    let len = if agg == Agg::Collect {
                        maxlen
                    } else if matches!(agg, Agg::Sum | Agg::Count | Agg::First | Agg::Last | Agg::Max) {
                        maxlen - 2
                    } else {
                        maxlen - 3
                    };
                    // (thorough: the full length only for the collecting aggregator)
                    let name = format!("C12/N{n}-S{s}-exact{exact}-{agg:?}-ts{ts}-len{len}");
                    out.push(loop_scenario(
                        name.clone(),
                        format!("all histories over {{key0, key1, end-of-iteration}} of length <= {len} for size {n} slide {s} exact {exact} aggregator {agg:?} timestamped {ts}"),
                        Arc::new(move || {
                            let mut cases = 0;
                            let mut nontrivial = 0;
                            let mut fail = None;
                            for l in 0..=len {
                                sequences(3, l, |h| {
                                    if fail.is_some() {
                                        return;
                                    }
                                    cases += 1;
                                    // non-trivial: some key reaches a complete group
                                    let c0 = h.iter().filter(|x| **x == 0).count();
                                    if c0 >= n {
                                        nontrivial += 1;
                                    }
                                    fail = check_case(h, n, s, exact, agg, ts);
                                });
                            }
                            (cases, nontrivial, fail)
                        }),
                    ));
                }
            }
        }
    }
    out
}

pub fn spec() -> PropSpec {
    PropSpec {
        id: "C12",
        build,
        rule: "for every 1<=S<=N<=5, exact and non-exact, all 13 aggregators, timestamped or not: ALL histories over {element of key 0, element of key 1, end of iteration} up to the length bound (and, for the collecting aggregator on timestamped streams, over the same alphabet plus {watermark, FlushBatch} up to length 7/9, where also the emission point is checked: a complete group comes out before the source is asked for the element after its N-th one) are fed to the real keyed count-window operator (built through the public API) and compared with the reference sliding groups [jS, jS+N) per key (emission position, order, content, end-of-iteration flush, no mixing of keys or iterations); a case is non-trivial when key 0 receives at least N elements",
        assumptions: &["histories up to the stated length; two keys"],
        exhaustive_when_uncapped: true,
        budget_s: (50, 900),
    }
}
