//! C06: watermark safety - no element at or below an already emitted watermark.
use std::sync::Arc;

use renoir::operator::window::{CountWindow, EventTimeWindow, TransactionOp, TransactionWindow};
use renoir::operator::StreamElement;
use renoir::Stream;

use crate::driver::{PropSpec, Tier};
use crate::e2::{drive, drive_one_upstream, loop_scenario, script_stream, shape, watermark_safety, El, FailSet};
use crate::explore::{Fail, Scenario};
use crate::kit::ScriptSource;
use crate::props::c13::{histories, Sym};
use crate::props::start_e2::{scenarios as start_scenarios, Oracle};

type Src = Stream<ScriptSource<(i64, i64)>>;
type Shape = Vec<(u8, Option<i64>)>;

fn tx_op(v: &i64) -> TransactionOp {
    match v % 4 {
        1 => TransactionOp::Commit,
        2 => TransactionOp::CommitAfter(2),
        3 => TransactionOp::Discard,
        _ => TransactionOp::Continue,
    }
}

/// The operators under test: name, and how to run a scripted input through them.
#[allow(clippy::type_complexity)]
fn operators() -> Vec<(String, Arc<dyn Fn(Vec<El<(i64, i64)>>) -> Shape + Send + Sync>)> {
    let mut v: Vec<(String, Arc<dyn Fn(Vec<El<(i64, i64)>>) -> Shape + Send + Sync>)> = vec![];
    fn s(script: Vec<El<(i64, i64)>>) -> Src {
        script_stream(script)
    }
    v.push(("keyed-fold".into(), Arc::new(|sc| shape(&drive(s(sc).to_keyed().fold(0i64, |a, x| *a += x).0.verif_into_chain().chain)))));
    v.push(("keyed-reduce".into(), Arc::new(|sc| shape(&drive(s(sc).to_keyed().reduce(|a, x| *a += x).0.verif_into_chain().chain)))));
    v.push(("global-fold".into(), Arc::new(|sc| {
        let vc = s(vec![]).fold(0i64, |a, x: (i64, i64)| *a += x.1).verif_into_chain();
        shape(&drive_one_upstream(vc, sc, false))
    })));
    v.push(("group-by-fold-local-phase".into(), Arc::new(|sc| {
        // the consumer side of a two-phase keyed fold, fed with the script
        let vc = s(vec![]).group_by_fold(|x: &(i64, i64)| x.0, 0i64, |a, x| *a += x.1, |a, x| *a += x).0.verif_into_chain();
        let sc2: Vec<El<(i64, i64)>> = sc;
        shape(&drive_one_upstream(vc, sc2, true))
    })));
    v.push(("reorder".into(), Arc::new(|sc| shape(&drive(s(sc).reorder().verif_into_chain().chain)))));
    v.push(("flat-map".into(), Arc::new(|sc| shape(&drive(s(sc).flat_map(|x| vec![x, x]).verif_into_chain().chain)))));
    v.push(("map-filter".into(), Arc::new(|sc| shape(&drive(s(sc).map(|x| x).filter(|x| x.1 % 2 == 0).verif_into_chain().chain)))));
    v.push(("keyed-flat-map".into(), Arc::new(|sc| shape(&drive(s(sc).to_keyed().flat_map(|(_, v)| vec![v, v]).0.verif_into_chain().chain)))));
    v.push(("flatten".into(), Arc::new(|sc| shape(&drive(s(sc).map(|x| vec![x, x]).flatten().verif_into_chain().chain)))));
    v.push(("keyed-flatten".into(), Arc::new(|sc| shape(&drive(s(sc).to_keyed().map(|(_, v)| vec![v, v]).flatten().0.verif_into_chain().chain)))));
    v.push(("keyed-filter-map-inspect".into(), Arc::new(|sc| shape(&drive(s(sc).to_keyed().filter_map(|(_, v)| if v % 2 == 0 { Some(v) } else { None }).inspect(|_| {}).0.verif_into_chain().chain)))));
    v.push(("rich-map".into(), Arc::new(|sc| shape(&drive(s(sc).to_keyed().rich_map(|x| x.1).0.verif_into_chain().chain)))));
    for (n, sl) in [(1usize, 1usize), (2, 1), (2, 2), (3, 2)] {
        v.push((format!("count-window-exact-{n}-{sl}"), Arc::new(move |sc| shape(&drive(s(sc).to_keyed().window(CountWindow::new(n, sl, true)).sum::<i64>().0.verif_into_chain().chain)))));
        v.push((format!("count-window-nonexact-flush-{n}-{sl}"), Arc::new(move |sc| shape(&drive(s(sc).to_keyed().window(CountWindow::new(n, sl, false)).sum::<i64>().0.verif_into_chain().chain)))));
    }
    for (size, sl) in [(1i64, 1i64), (2, 1), (2, 2), (3, 2), (3, 3)] {
        v.push((format!("event-time-window-{size}-{sl}"), Arc::new(move |sc| shape(&drive(s(sc).to_keyed().window(EventTimeWindow::sliding(size, sl)).sum::<i64>().0.verif_into_chain().chain)))));
    }
    v.push(("transaction-window".into(), Arc::new(|sc| shape(&drive(s(sc).to_keyed().window(TransactionWindow::new(tx_op)).sum::<i64>().0.verif_into_chain().chain)))));
    v
}

fn build(tier: Tier) -> Vec<Scenario> {
    let mut out = start_scenarios("C06", Oracle::Safety, tier == Tier::Quick);
    let (len, tmax) = match tier {
        Tier::Quick => (4usize, 3i64),
        Tier::Thorough => (6, 4),
    };
    for (name, run) in operators() {
        let name2 = name.clone();
        out.push(loop_scenario(
            format!("C06/operator/{name}/len{len}"),
            format!("all contract-respecting timestamped histories (2 keys, timestamps 0..={tmax}, watermarks, ends of iteration) of length <= {len} through {name}; monitor on the output: nothing at or below an emitted watermark"),
            Arc::new(move || {
                let mut cases = 0;
                let mut nontrivial = 0;
                let mut fails = FailSet::default();
                histories(2, tmax, len, &mut |h| {
                    if fails.full() {
                        return;
                    }
                    cases += 1;
                    if h.iter().any(|s| matches!(s, Sym::W(_))) && h.iter().any(|s| matches!(s, Sym::T(..))) {
                        nontrivial += 1;
                    }
                    let script: Vec<El<(i64, i64)>> = h
                        .iter()
                        .enumerate()
                        .map(|(i, s)| match s {
                            Sym::T(k, t) => StreamElement::Timestamped((*k, i as i64 + 1), *t),
                            Sym::W(w) => StreamElement::Watermark(*w),
                            Sym::Far => StreamElement::FlushAndRestart,
                        })
                        .collect();
                    let sh = run(script);
                    if let Some((sig, msg)) = watermark_safety(&sh) {
                        fails.add(Some(Fail::new(
                            format!("c06-{name2}-{sig}"),
                            format!("{name2}: history {:?}: {msg}; output (kind, ts) {:?}", h, sh),
                        )));
                    }
                });
                (cases, nontrivial, fails.first())
            }),
        ));
    }
    // add_timestamps / drop_timestamps: the generator functions are the user's; with functions that
    // respect the contract the operator must emit exactly element, then its watermark
    for keyed in [false, true] {
        out.push(loop_scenario(
            format!("C06/add-drop-timestamps/keyed{keyed}/len{len}"),
            format!("all contract-respecting histories of length <= {len} in which every watermark follows an element, produced by add_timestamps from plain items (keyed stream: {keyed}); output = exactly the history; then drop_timestamps gives back the plain items"),
            Arc::new(move || {
                let mut cases = 0;
                let mut nontrivial = 0;
                let mut fails = FailSet::default();
                histories(2, tmax, len, &mut |h| {
                    if fails.full() {
                        return;
                    }
                    // items (key, id, ts, wm or -1)
                    let mut script: Vec<El<(i64, (i64, i64, i64))>> = vec![];
                    let mut expected: Shape = vec![];
                    for (i, sym) in h.iter().enumerate() {
                        match sym {
                            Sym::T(k, t) => {
                                script.push(StreamElement::Item((*k, (i as i64, *t, -1))));
                                expected.push((crate::kit::K_TS, Some(*t)));
                            }
                            Sym::W(w) => match script.last_mut() {
                                Some(StreamElement::Item((_, (_, _, wm)))) if *wm < 0 && matches!(h[i - 1], Sym::T(..)) => {
                                    *wm = *w;
                                    expected.push((crate::kit::K_WM, Some(*w)));
                                }
                                _ => return, // a watermark that no element can carry
                            },
                            Sym::Far => {
                                script.push(StreamElement::FlushAndRestart);
                                expected.push((crate::kit::K_FAR, None));
                            }
                        }
                    }
                    cases += 1;
                    if h.iter().any(|s| matches!(s, Sym::W(_))) {
                        nontrivial += 1;
                    }
                    let (stamped, dropped) = if keyed {
                        let a = shape(&drive(script_stream(script.clone()).to_keyed().add_timestamps(|(_, v)| v.1, |(_, v), _| if v.2 >= 0 { Some(v.2) } else { None }).0.verif_into_chain().chain));
                        let b = shape(&drive(script_stream(script).to_keyed().add_timestamps(|(_, v)| v.1, |(_, v), _| if v.2 >= 0 { Some(v.2) } else { None }).drop_timestamps().0.verif_into_chain().chain));
                        (a, b)
                    } else {
                        let a = shape(&drive(script_stream(script.clone()).add_timestamps(|x| x.1 .1, |x, _| if x.1 .2 >= 0 { Some(x.1 .2) } else { None }).verif_into_chain().chain));
                        let b = shape(&drive(script_stream(script).add_timestamps(|x| x.1 .1, |x, _| if x.1 .2 >= 0 { Some(x.1 .2) } else { None }).drop_timestamps().verif_into_chain().chain));
                        (a, b)
                    };
                    // the source closes the last iteration itself
                    let strip = |sh: &Shape| -> Shape {
                        let mut v = sh.clone();
                        while matches!(v.last(), Some((k, _)) if *k == crate::kit::K_TERM || *k == crate::kit::K_FAR) {
                            v.pop();
                        }
                        v
                    };
                    let mut exp = expected.clone();
                    while matches!(exp.last(), Some((k, _)) if *k == crate::kit::K_FAR) {
                        exp.pop();
                    }
                    if strip(&stamped) != exp {
                        fails.add(Some(Fail::new("c06-add-timestamps-output", format!("add_timestamps (keyed {keyed}) for history {:?}: output (kind, ts) {:?}, expected {:?}", h, strip(&stamped), exp))));
                    }
                    let exp_dropped: Shape = exp.iter().filter(|(k, _)| *k != crate::kit::K_WM).map(|(k, _)| if *k == crate::kit::K_TS { (crate::kit::K_ITEM, None) } else { (*k, None) }).collect();
                    if strip(&dropped) != exp_dropped {
                        fails.add(Some(Fail::new("c06-drop-timestamps-output", format!("drop_timestamps (keyed {keyed}) for history {:?}: output (kind, ts) {:?}, expected {:?}", h, strip(&dropped), exp_dropped))));
                    }
                });
                (cases, nontrivial, fails.first())
            }),
        ));
    }
    // merge of two timestamped streams through the real two-input Start: the frontier is the
    // minimum over both sides; every interleaving of the two sides (all select answers)
    let seqs = crate::props::start_e2::replica_seqs(2, if tier == Tier::Quick { 2 } else { 3 });
    for (i, l) in seqs.iter().enumerate() {
        for (j, r) in seqs.iter().enumerate() {
            let (l, r) = (l.clone(), r.clone());
            out.push(crate::e2::select_scenario(
                format!("C06/merge/L{i}-R{j}"),
                format!("merge of a left stream {:?} and a right stream {:?} (T = timestamped element, W = watermark), every interleaving of the two sides", l, r),
                Arc::new(move || {
                    use crate::props::start_e2::Sym as S;
                    let side = |v: &Vec<S>, base: i64| -> Vec<Vec<El<i64>>> {
                        let mut b: Vec<Vec<El<i64>>> = v
                            .iter()
                            .enumerate()
                            .map(|(k, s)| match s {
                                S::T(t) => vec![StreamElement::Timestamped(base + k as i64, *t)],
                                S::W(w) => vec![StreamElement::Watermark(*w)],
                            })
                            .collect();
                        b.push(vec![StreamElement::FlushAndRestart]);
                        b.push(vec![StreamElement::Terminate]);
                        b
                    };
                    let env = renoir::StreamContext::new(renoir::RuntimeConfig::local(1).unwrap());
                    let s1 = env.stream(ScriptSource::<i64>::new(vec![], renoir::Replication::One));
                    let s2 = env.stream(ScriptSource::<i64>::new(vec![], renoir::Replication::One));
                    let out = crate::e2::drive_binary(s1.merge(s2).verif_into_chain(), vec![side(&l, 0)], vec![side(&r, 100)]);
                    let n_in = l.iter().chain(r.iter()).filter(|s| matches!(s, S::T(_))).count();
                    let n_out = out.iter().filter(|e| matches!(e, StreamElement::Timestamped(..))).count();
                    if n_in != n_out {
                        return Some(Fail::new("c06-merge-conservation", format!("merge of {:?} and {:?}: {n_out} elements out, {n_in} in", l, r)));
                    }
                    watermark_safety(&shape(&out)).map(|(sig, msg)| Fail::new(format!("c06-merge-{sig}"), format!("merge of {:?} and {:?}: {msg}; output {:?}", l, r, shape(&out))))
                }),
            ));
        }
    }
    // interval joins (their input type is crate-private, so they run as jobs): the pairs and the
    // watermarks behind the join
    for (lo, up) in [(1i64, 1i64), (0, 2), (2, 0)] {
        for l in [vec![0i64, 1], vec![1, 3], vec![0, 2, 4]] {
            for r in [vec![0i64, 2], vec![1, 1], vec![2, 3, 4]] {
                out.push(crate::props::c08_jobs::interval_case("C06", l.clone(), r.clone(), lo, up, if tier == Tier::Quick { 0 } else { 1 }, false));
            }
        }
    }
    // whole jobs with slow sources and timed batching: a watermark must not overtake data that
    // is still buffered on its link
    out.extend(crate::props::timed::scenarios("C06", tier == Tier::Quick, "C06"));
    // zip of timestamped streams through the real two-input Start, every interleaving of the two
    // sides: a pair stamped below a watermark that zip has already forwarded
    for a in 0..=2usize {
        for b in 0..=2usize {
            for off in [0i64, 2] {
                let mut s = crate::props::c09::zip_timestamped(a, b, off);
                s.name = s.name.replace("C09/", "C06/");
                out.push(s);
            }
        }
    }
    out
}

pub fn spec() -> PropSpec {
    PropSpec {
        id: "C06",
        build,
        rule: "(1) the real Start/WatermarkFrontier fed by 2-3 upstream replicas: every contract-respecting per-replica sequence, all arrival interleavings, two batchings; (2) every stateful/stateless operator on the timestamped path (keyed fold/reduce, global fold behind its Start, two-phase keyed fold, reorder, flat_map, map+filter, rich_map, count / event-time / transaction windows for several sizes and slides incl. watermark equal to a window end; timestamped zip and merge under every answer of the two-way select; interval joins as jobs): all contract-respecting histories over 2 keys up to the length bound; monitor: after Watermark(t) no element with timestamp <= t and no watermark <= t until the end of the iteration; non-trivial = history with both watermarks and elements",
        assumptions: &["histories up to the stated length, timestamps 0..=4"],
        exhaustive_when_uncapped: true,
        budget_s: (50, 1200),
    }
}
