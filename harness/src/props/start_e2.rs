//! E2 driver for the block input (`Start` + watermark frontier) fed by several upstream replicas:
//! every contract-respecting per-replica sequence, every arrival interleaving, two batchings.
//! Used by C06 (watermark safety) and C17 (watermark progress).
use std::sync::Arc;

use renoir::operator::{Operator, StreamElement};
use renoir::verif::testkit::Testbed;
use renoir::{BatchMode, Replication, RuntimeConfig, StreamContext};

use crate::e2::{loop_scenario, FailSet};
use crate::explore::{Fail, Scenario};
use crate::kit::ScriptSource;

#[derive(Clone, Copy, Debug, PartialEq, Eq)]
pub enum Sym {
    T(i64),
    W(i64),
}

#[derive(Clone, Copy, Debug, PartialEq, Eq)]
pub enum Oracle {
    Safety,
    Progress,
}

/// All contract-respecting sequences of one replica for one iteration, length <= len.
pub fn replica_seqs(tmax: i64, len: usize) -> Vec<Vec<Sym>> {
    fn rec(tmax: i64, len: usize, cur: &mut Vec<Sym>, wm: i64, out: &mut Vec<Vec<Sym>>) {
        out.push(cur.clone());
        if cur.len() == len {
            return;
        }
        for t in (wm + 1)..=tmax {
            cur.push(Sym::T(t));
            rec(tmax, len, cur, wm, out);
            cur.pop();
        }
        for w in (wm + 1)..=tmax {
            cur.push(Sym::W(w));
            rec(tmax, len, cur, w, out);
            cur.pop();
        }
    }
    let mut out = vec![];
    rec(tmax, len, &mut vec![], -1, &mut out);
    out
}

/// All interleavings of sequences with the given lengths (as sequences of replica indices).
pub fn interleavings(lens: &[usize], f: &mut dyn FnMut(&[usize])) {
    fn rec(left: &mut Vec<usize>, cur: &mut Vec<usize>, f: &mut dyn FnMut(&[usize])) {
        if left.iter().all(|l| *l == 0) {
            f(cur);
            return;
        }
        for i in 0..left.len() {
            if left[i] > 0 {
                left[i] -= 1;
                cur.push(i);
                rec(left, cur, f);
                cur.pop();
                left[i] += 1;
            }
        }
    }
    rec(&mut lens.to_vec(), &mut vec![], f);
}

/// Run the real `Start` of a block fed by `n` upstream replicas with the given arrival order of
/// elements; `coalesce` = consecutive elements of one replica travel in one batch.
fn run_start(scripts: &[Vec<StreamElement<i64>>], order: &[usize], coalesce: bool) -> Vec<StreamElement<i64>> {
    let env = StreamContext::new(RuntimeConfig::local(1).unwrap());
    let vc = env
        .stream(ScriptSource::<i64>::new(vec![], Replication::Unlimited))
        .batch_mode(BatchMode::fixed(1024))
        .shuffle()
        .verif_into_chain();
    let mut chain = vc.chain;
    let mut tb = Testbed::new(vc.block_id, 0, 1);
    let feeders = tb.upstream::<i64>(vc.prev_blocks[0], scripts.len() as u64);
    tb.setup(&mut chain, BatchMode::fixed(1024));
    let mut pos = vec![0usize; scripts.len()];
    let mut i = 0;
    while i < order.len() {
        let r = order[i];
        let mut batch = vec![scripts[r][pos[r]].clone()];
        pos[r] += 1;
        i += 1;
        if coalesce {
            while i < order.len() && order[i] == r {
                batch.push(scripts[r][pos[r]].clone());
                pos[r] += 1;
                i += 1;
            }
        }
        feeders[r].send(batch);
    }
    drop(feeders);
    let mut out = vec![];
    for _ in 0..10_000 {
        let e = chain.next();
        let t = matches!(e, StreamElement::Terminate);
        if !matches!(e, StreamElement::FlushBatch) {
            out.push(e);
        }
        if t {
            break;
        }
    }
    out
}

/// What arrives at / leaves a block input, as far as watermark progress is concerned.
#[derive(Clone, Copy, Debug, PartialEq, Eq)]
pub enum Arr {
    Data,
    Wm(i64),
    Far,
}

/// C17's oracle: a reference tracker of "minimum of the latest watermarks over the upstream
/// replicas that have not ended their iteration" runs over the arrival sequence; whenever that
/// minimum rises, the output must hold a watermark of that value after the data elements output so
/// far and before the next one (or the end of the iteration).
pub fn progress_fails(n: usize, arrival: &[(usize, Arr)], out: &[Arr], descr: &dyn Fn() -> String) -> Vec<Fail> {
    let mut fails = vec![];
    let mut latest: Vec<Option<i64>> = vec![None; n];
    let mut ended = vec![false; n];
    let mut cur_min: Option<i64> = None;
    // requirements: (number of data elements output before, watermark value, cause)
    let mut req: Vec<(usize, i64, &'static str)> = vec![];
    let mut data_seen = 0usize;
    let mut far_seen = 0usize;
    let mut req_far: Vec<usize> = vec![]; // FAR count at the time of the requirement
    for (r, e) in arrival {
        let r = *r;
        let mut cause = "";
        match e {
            Arr::Data => data_seen += 1,
            Arr::Wm(w) => {
                latest[r] = Some(*w);
                cause = "watermark";
            }
            Arr::Far => {
                ended[r] = true;
                cause = "replica-end";
                if ended.iter().all(|x| *x) {
                    // iteration over: reset
                    ended = vec![false; n];
                    latest = vec![None; n];
                    cur_min = None;
                    far_seen += 1;
                    continue;
                }
            }
        }
        if cause.is_empty() {
            continue;
        }
        let active: Vec<Option<i64>> = (0..n).filter(|i| !ended[*i]).map(|i| latest[i]).collect();
        let m = if active.iter().all(|x| x.is_some()) { active.iter().map(|x| x.unwrap()).min() } else { None };
        if let Some(m) = m {
            if cur_min.map(|c| m > c).unwrap_or(true) {
                cur_min = Some(m);
                req.push((data_seen, m, cause));
                req_far.push(far_seen);
            }
        }
    }
    // position of each requirement in the output: after `data_seen` data elements of the
    // whole run and before the next data element / the end of that iteration
    for (k, (d, m, cause)) in req.iter().enumerate() {
        let mut seen = 0usize;
        let mut fars = 0usize;
        let mut found = false;
        for e in out {
            match e {
                Arr::Data => {
                    if seen >= *d && fars == req_far[k] {
                        break;
                    }
                    seen += 1;
                }
                Arr::Wm(w) => {
                    if seen == *d && fars == req_far[k] && *w == *m {
                        found = true;
                        break;
                    }
                }
                Arr::Far => {
                    if fars == req_far[k] && seen >= *d {
                        break;
                    }
                    fars += 1;
                }
            }
        }
        if !found {
            let sig = if *cause == "replica-end" { "c17-progress-on-replica-end-not-forwarded" } else { "c17-watermark-withheld" };
            fails.push(Fail::new(sig, format!("{}: after {} data elements the minimum over active replicas rose to {m} (caused by a {cause}) but no Watermark({m}) precedes the next element", descr(), d)));
        }
    }
    fails
}

/// Check one case. `iters[k][r]` = sequence of replica r in iteration k.
fn check_case(iters: &[Vec<Vec<Sym>>], order: &[usize], coalesce: bool, oracle: Oracle) -> Vec<Fail> {
    let mut fails: Vec<Fail> = vec![];
    let n = iters[0].len();
    // full scripts: iteration sequences each closed by FAR, then Terminate
    let mut scripts: Vec<Vec<StreamElement<i64>>> = vec![vec![]; n];
    for it in iters {
        for (r, seq) in it.iter().enumerate() {
            for (j, s) in seq.iter().enumerate() {
                scripts[r].push(match s {
                    Sym::T(t) => StreamElement::Timestamped((r * 100 + j) as i64, *t),
                    Sym::W(w) => StreamElement::Watermark(*w),
                });
            }
            scripts[r].push(StreamElement::FlushAndRestart);
        }
    }
    for s in scripts.iter_mut() {
        s.push(StreamElement::Terminate);
    }
    let out = run_start(&scripts, order, coalesce);
    let descr = || format!("{n} upstream replicas, per-iteration sequences {:?}, arrival order {:?}, batching {}", iters, order, if coalesce { "runs" } else { "single elements" });
    // shape: grammar and data conservation in arrival order
    let mut pos = vec![0usize; n];
    let mut expected_data: Vec<StreamElement<i64>> = vec![];
    for &r in order {
        let e = scripts[r][pos[r]].clone();
        pos[r] += 1;
        if matches!(e, StreamElement::Timestamped(..)) {
            expected_data.push(e);
        }
    }
    let got_data: Vec<StreamElement<i64>> = out.iter().filter(|e| matches!(e, StreamElement::Timestamped(..))).cloned().collect();
    if got_data != expected_data {
        return vec![Fail::new("start-data", format!("{}: data out {:?}, data in arrival order {:?}", descr(), got_data, expected_data))];
    }
    let fars = out.iter().filter(|e| matches!(e, StreamElement::FlushAndRestart)).count();
    if fars != iters.len() || !matches!(out.last(), Some(StreamElement::Terminate)) {
        return vec![Fail::new("start-grammar", format!("{}: output {:?}", descr(), out))];
    }
    match oracle {
        Oracle::Safety => {
            let mut wm: Option<i64> = None;
            for e in &out {
                match e {
                    StreamElement::Watermark(w) => {
                        if wm.map(|x| *w <= x).unwrap_or(false) {
                            return vec![Fail::new("c06-start-watermark-not-increasing", format!("{}: Watermark({w}) after Watermark({})", descr(), wm.unwrap()))];
                        }
                        wm = Some(*w);
                    }
                    StreamElement::Timestamped(_, t) => {
                        if wm.map(|x| *t <= x).unwrap_or(false) {
                            return vec![Fail::new("c06-start-element-behind-watermark", format!("{}: element with timestamp {t} after Watermark({}) : output {:?}", descr(), wm.unwrap(), out))];
                        }
                    }
                    StreamElement::FlushAndRestart => wm = None,
                    _ => {}
                }
            }
        }
        Oracle::Progress => {
            let mut pos = vec![0usize; n];
            let mut arrival: Vec<(usize, Arr)> = vec![];
            for &r in order {
                let e = &scripts[r][pos[r]];
                pos[r] += 1;
                match e {
                    StreamElement::Timestamped(..) => arrival.push((r, Arr::Data)),
                    StreamElement::Watermark(w) => arrival.push((r, Arr::Wm(*w))),
                    StreamElement::FlushAndRestart => arrival.push((r, Arr::Far)),
                    _ => {}
                }
            }
            let outk: Vec<Arr> = out
                .iter()
                .filter_map(|e| match e {
                    StreamElement::Timestamped(..) => Some(Arr::Data),
                    StreamElement::Watermark(w) => Some(Arr::Wm(*w)),
                    StreamElement::FlushAndRestart => Some(Arr::Far),
                    _ => None,
                })
                .collect();
            fails.extend(progress_fails(n, &arrival, &outk, &|| format!("{}; output {:?}", descr(), out)));
        }
    }
    fails
}

pub fn scenarios(prop: &str, oracle: Oracle, quick: bool) -> Vec<Scenario> {
    let mut out = vec![];
    // (replicas, tmax, len per replica) for the first iteration; second iteration: a fixed pair
    let cfgs: Vec<(usize, i64, usize, bool)> = if quick && oracle == Oracle::Progress {
        // (the progress oracle is the slower one)
        vec![(2, 3, 2, false), (2, 2, 2, true), (3, 2, 1, false)]
    } else if quick {
        vec![(2, 3, 2, false), (2, 2, 3, false), (2, 2, 2, true), (3, 2, 1, false)]
    } else {
        vec![(2, 3, 3, false), (2, 4, 2, false), (2, 2, 3, true), (3, 2, 2, false), (3, 3, 1, true)]
    };
    for (n, tmax, len, two_iters) in cfgs {
        let seqs = replica_seqs(tmax, len);
        // split by the first replica's sequence index modulo 8 to spread over processes
        for part in 0..8usize {
            let seqs = seqs.clone();
            let prop_s = prop.to_string();
            out.push(loop_scenario(
                format!("{prop}/start/replicas{n}-tmax{tmax}-len{len}-iters{}/part{part}", if two_iters { 2 } else { 1 }),
                format!("Start fed by {n} upstream replicas: every contract-respecting sequence (timestamps/watermarks 0..={tmax}, length <= {len}) per replica{}, all arrival interleavings (FAR included), 2 batchings; slice {part}/8 of the first replica's sequences", if two_iters { ", followed by a second iteration" } else { "" }),
                Arc::new(move || {
                    let _ = &prop_s;
                    let mut cases = 0usize;
                    let mut nontrivial = 0usize;
                    let mut fail = FailSet::default();
                    let mut idx = vec![0usize; n];
                    // odometer over sequence choices of the n replicas
                    'outer: loop {
                        if idx[0] % 8 == part {
                            let first: Vec<Vec<Sym>> = idx.iter().map(|i| seqs[*i].clone()).collect();
                            let mut iters = vec![first];
                            if two_iters {
                                let second: Vec<Vec<Sym>> = (0..n).map(|r| if r == 0 { vec![Sym::W(1), Sym::T(2)] } else { vec![Sym::T(0), Sym::W(2)] }).collect();
                                iters.push(second);
                            }
                            // arrival interleavings of iteration 1 (+FAR each); iteration 2 arrives
                            // afterwards in a fixed round-robin order (a replica cannot start
                            // iteration 2 before every replica ended iteration 1 in a real job
                            // only if there is a barrier; without one it can - covered by
                            // interleaving the FARs too)
                            let lens: Vec<usize> = iters[0].iter().map(|s| s.len() + 1).collect();
                            let tail: Vec<usize> = if two_iters {
                                let mut t = vec![];
                                let l2: Vec<usize> = iters[1].iter().map(|s| s.len() + 1).collect();
                                let mx = *l2.iter().max().unwrap();
                                for j in 0..mx {
                                    for r in 0..n {
                                        if j < l2[r] {
                                            t.push(r);
                                        }
                                    }
                                }
                                t
                            } else {
                                vec![]
                            };
                            let has_wm = iters[0].iter().filter(|s| s.iter().any(|x| matches!(x, Sym::W(_)))).count();
                            interleavings(&lens, &mut |ord| {
                                if fail.full() || crate::e2::out_of_time() {
                                    return;
                                }
                                let mut order = ord.to_vec();
                                order.extend(tail.iter().copied());
                                // the Terminate of every replica arrives last
                                for r in 0..n {
                                    order.push(r);
                                }
                                for coalesce in [false, true] {
                                    cases += 1;
                                    if has_wm == n {
                                        nontrivial += 1;
                                    }
                                    fail.extend(check_case(&iters, &order, coalesce, oracle));
                                }
                            });
                        }
                        if fail.full() || crate::e2::out_of_time() {
                            break;
                        }
                        // next
                        let mut k = n;
                        loop {
                            if k == 0 {
                                break 'outer;
                            }
                            k -= 1;
                            idx[k] += 1;
                            if idx[k] < seqs.len() {
                                break;
                            }
                            idx[k] = 0;
                        }
                    }
                    (cases, nontrivial, fail.first())
                }),
            ));
        }
    }
    out
}
