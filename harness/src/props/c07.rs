//! C07: aggregations equal a sequential fold; two-phase forms change nothing.
use std::collections::BTreeMap;
use std::sync::Arc;

use renoir::operator::StreamElement;
use renoir::prelude::*;
use renoir::{BatchMode, Replication};

use crate::driver::{PropSpec, Tier};
use crate::explore::{hash_of, Check, Fail, Scenario};
use crate::kit::{erase, log_sink, probe, sink_rows, Layout, ScriptSource, DS};
use crate::props::common::ORDERS3;
use crate::rt::{EnvParams, Ev, Status};

#[derive(Clone, Copy, Debug, PartialEq, Eq)]
enum Agg {
    Fold,
    Reduce,
    FoldAssoc,
    ReduceAssoc,
    GbFold,
    GbReduce,
    GroupByFold,
    GroupByReduce,
    GroupBySum,
    GroupByCount,
    GroupByAvg,
    GroupByMin,
    GroupByMax,
    RichMapCounter,
}

const ALL: [Agg; 14] = [
    Agg::Fold, Agg::Reduce, Agg::FoldAssoc, Agg::ReduceAssoc, Agg::GbFold, Agg::GbReduce, Agg::GroupByFold,
    Agg::GroupByReduce, Agg::GroupBySum, Agg::GroupByCount, Agg::GroupByAvg, Agg::GroupByMin, Agg::GroupByMax,
    Agg::RichMapCounter,
];

type KV = (i64, i64);

fn apply<O: renoir::operator::Operator<Out = KV> + 'static>(s: renoir::Stream<O>, agg: Agg) -> DS<KV> {
    match agg {
        Agg::Fold => erase(s.fold(0i64, |a, x: KV| *a += x.1).map(|v| (-1, v))),
        Agg::Reduce => erase(s.map(|x| x.1).reduce(|a, b| a + b).map(|v| (-1, v))),
        Agg::FoldAssoc => erase(s.fold_assoc(0i64, |a, x: KV| *a += x.1, |a, b| *a += b).map(|v| (-1, v))),
        Agg::ReduceAssoc => erase(s.map(|x| x.1).reduce_assoc(|a, b| a + b).map(|v| (-1, v))),
        Agg::GbFold => erase(s.group_by(|x: &KV| x.0).fold(0i64, |a, x| *a += x.1).unkey()),
        Agg::GbReduce => erase(s.group_by(|x: &KV| x.0).map(|(_, x)| x.1).reduce(|a, b| *a += b).unkey()),
        Agg::GroupByFold => erase(s.group_by_fold(|x: &KV| x.0, 0i64, |a, x| *a += x.1, |a, b| *a += b).unkey()),
        Agg::GroupByReduce => erase(s.group_by_reduce(|x: &KV| x.0, |a, b| a.1 += b.1).unkey().map(|(k, x)| (k, x.1))),
        Agg::GroupBySum => erase(s.group_by_sum(|x: &KV| x.0, |x| x.1).unkey()),
        Agg::GroupByCount => erase(s.group_by_count(|x: &KV| x.0).unkey().map(|(k, c)| (k, c as i64))),
        Agg::GroupByAvg => erase(s.group_by_avg(|x: &KV| x.0, |x| x.1 as f64).unkey().map(|(k, a)| (k, (a * 1024.0) as i64))),
        Agg::GroupByMin => erase(s.group_by_min_element(|x: &KV| x.0, |x| x.1).unkey().map(|(k, x)| (k, x.1))),
        Agg::GroupByMax => erase(s.group_by_max_element(|x: &KV| x.0, |x| x.1).unkey().map(|(k, x)| (k, x.1))),
        Agg::RichMapCounter => erase(
            s.group_by(|x: &KV| x.0)
                .rich_map({
                    let mut c = 0i64;
                    move |_| {
                        c += 1;
                        c
                    }
                })
                .unkey(),
        ),
    }
}

/// Expected rows for one iteration.
fn reference(input: &[KV], agg: Agg) -> Vec<Vec<i64>> {
    let mut per: BTreeMap<i64, Vec<i64>> = BTreeMap::new();
    for (k, v) in input {
        per.entry(*k).or_default().push(*v);
    }
    let mut rows: Vec<Vec<i64>> = vec![];
    match agg {
        Agg::Fold | Agg::Reduce | Agg::FoldAssoc | Agg::ReduceAssoc => {
            if !input.is_empty() {
                rows.push(vec![-1, input.iter().map(|x| x.1).sum()]);
            }
        }
        Agg::GroupByCount => rows.extend(per.iter().map(|(k, v)| vec![*k, v.len() as i64])),
        Agg::GroupByAvg => rows.extend(per.iter().map(|(k, v)| vec![*k, ((v.iter().sum::<i64>() as f64 / v.len() as f64) * 1024.0) as i64])),
        Agg::GroupByMin => rows.extend(per.iter().map(|(k, v)| vec![*k, *v.iter().min().unwrap()])),
        Agg::GroupByMax => rows.extend(per.iter().map(|(k, v)| vec![*k, *v.iter().max().unwrap()])),
        Agg::RichMapCounter => {
            for (k, v) in &per {
                for c in 1..=v.len() as i64 {
                    rows.push(vec![*k, c]);
                }
            }
        }
        _ => rows.extend(per.iter().map(|(k, v)| vec![*k, v.iter().sum()])),
    }
    rows.sort();
    rows
}

/// (key, value) pairs assigned to source replicas; optionally timestamped (ts = index) and
/// optionally run inside a 2-round replay (the aggregate of the body is what we look at).
fn scenario(agg: Agg, input: Vec<KV>, assign: Vec<usize>, p: u64, ts: bool, in_loop: bool, bound: usize) -> Scenario {
    scenario_on(agg, input, assign, Layout::Local(p), ts, in_loop, bound)
}

fn scenario_on(agg: Agg, input: Vec<KV>, assign: Vec<usize>, layout: Layout, ts: bool, in_loop: bool, bound: usize) -> Scenario {
    let p = layout.total_cores();
    let lname = if layout.hosts() == 1 { format!("p{p}") } else { layout.name() };
    let (name, descr) = if input.len() > 12 {
        (
            format!("C07/{:?}/many-keys-{}/{}", agg, input.len(), layout.name()),
            format!("{:?} of {} (key, value) pairs {:?}.. spread over the {p} source replicas (layout {}), timestamped {ts}", agg, input.len(), &input[..6], layout.name()),
        )
    } else {
        (
            format!("C07/{:?}/in{:?}/on{:?}/{lname}/ts{ts}/loop{in_loop}", agg, input, assign).replace(' ', ""),
            format!("{:?} of (key, value) pairs {:?} placed on source replicas {:?} of {p} (layout {}), timestamped {ts}, inside a 2-round replay {in_loop}", agg, input, assign, layout.name()),
        )
    };
    let (input2, assign2) = (input.clone(), assign.clone());
    let body: crate::rt::Body = Arc::new(move || {
      let (input2, assign2) = (input2.clone(), assign2.clone());
      let res = crate::kit::run_hosts(&layout, Arc::new(move |host, env| {
        let mut scripts: Vec<Vec<StreamElement<KV>>> = vec![vec![]; p as usize];
        for (i, x) in input2.iter().enumerate() {
            scripts[assign2[i] % p as usize].push(if ts { StreamElement::Timestamped(*x, i as i64) } else { StreamElement::Item(*x) });
        }
        let s = env.stream(ScriptSource::new(scripts, Replication::Unlimited)).batch_mode(BatchMode::fixed(2));
        if in_loop {
            let out = s
                .replay(
                    2,
                    0i64,
                    move |s, _| erase(probe(apply(s, agg), 7)),
                    |d: &mut i64, x: KV| *d += x.1,
                    |st: &mut i64, d: i64| *st += d,
                    |_: &mut i64| true,
                )
                .collect_vec();
            env.execute_blocking();
            log_sink("state", host, out.get());
        } else {
            let out = probe(apply(s, agg), 7).collect_vec();
            env.execute_blocking();
            log_sink("sink0", host, out.get());
        }
      }));
      for (h, r) in res.into_iter().enumerate() {
          if let Some(p) = r {
              crate::rt::log(Ev::Text("host-panic", format!("{h}: {p}")));
          }
      }
    });
    let exp = reference(&input, agg);
    let max_ts: BTreeMap<i64, i64> = {
        let mut m = BTreeMap::new();
        for (i, (k, _)) in input.iter().enumerate() {
            let key = if matches!(agg, Agg::Fold | Agg::Reduce | Agg::FoldAssoc | Agg::ReduceAssoc) { -1 } else { *k };
            let e = m.entry(key).or_insert(i as i64);
            *e = (*e).max(i as i64);
        }
        m
    };
    let d2 = descr.clone();
    let check: Check = Arc::new(move |r| {
        if r.status != Status::Done {
            return Err(Fail::new(format!("c07-{:?}-abnormal", agg), format!("{d2}: {:?}", r.status)));
        }
        for e in &r.log {
            if let Ev::Text("host-panic", t) = e {
                return Err(Fail::new(format!("c07-{:?}-panic", agg), format!("{d2}: {t}")));
            }
        }
        // results per iteration as seen by the probe right after the aggregation (all replicas)
        let mut iters: BTreeMap<(u64, u64, u64), Vec<Vec<(Vec<i64>, Option<i64>)>>> = BTreeMap::new();
        for e in &r.log {
            if let Ev::Probe(7, coord, k, t, payload) = e {
                let v = iters.entry(*coord).or_insert_with(|| vec![vec![]]);
                match *k {
                    0 | 1 => v.last_mut().unwrap().push((payload.clone(), *t)),
                    5 => v.push(vec![]),
                    _ => {}
                }
            }
        }
        let n_iters = if in_loop { 2 } else { 1 };
        for it in 0..n_iters {
            let mut rows: Vec<Vec<i64>> = vec![];
            for v in iters.values() {
                if let Some(x) = v.get(it) {
                    for (p, t) in x {
                        rows.push(p.clone());
                        if ts && agg != Agg::RichMapCounter {
                            let key = p[0];
                            match (t, max_ts.get(&key)) {
                                (Some(t), Some(m)) if t == m => {}
                                (t, m) => {
                                    return Err(Fail::new(
                                        format!("c07-{:?}-timestamp", agg),
                                        format!("{d2}: result {:?} of iteration {it} carries timestamp {:?}, the maximum input timestamp of its key is {:?}", p, t, m),
                                    ))
                                }
                            }
                        }
                    }
                }
            }
            rows.sort();
            if rows != exp {
                let sig = if rows.len() > exp.len() { "extra-result" } else if rows.len() < exp.len() { "missing-result" } else { "wrong-value" };
                // a wrong value that only shows from the second iteration on is state kept
                // across iterations
                let sig = if it >= 1 { format!("{sig}-from-iteration-2") } else { sig.to_string() };
                return Err(Fail::new(
                    format!("c07-{:?}-{sig}", agg),
                    if rows.len() + exp.len() > 60 {
                        let missing: Vec<&Vec<i64>> = exp.iter().filter(|x| !rows.contains(x)).take(5).collect();
                        let extra: Vec<&Vec<i64>> = rows.iter().filter(|x| !exp.contains(x)).take(5).collect();
                        format!("{d2}: iteration {it} produced {} results, a sequential fold gives {}; first missing {:?}, first unexpected {:?}", rows.len(), exp.len(), missing, extra)
                    } else {
                        format!("{d2}: iteration {it} produced {:?}, a sequential fold gives {:?}", rows, exp)
                    },
                ));
            }
        }
        if !in_loop {
            let (n, rows) = sink_rows(&r.log, "sink0");
            if n != 1 || rows.unwrap() != exp {
                return Err(Fail::new(format!("c07-{:?}-sink", agg), format!("{d2}: sink content differs from the aggregation output")));
            }
        }
        Ok(hash_of(&r.log))
    });
    Scenario {
        name,
        descr,
        params: EnvParams::default(),
        body,
        check,
        bound,
        orders: ORDERS3[..1].to_vec(),
        max_execs: 0,
        shards: 1,
        nontrivial: input.len() >= 2,
        unbounded: false,
        loop_body: false,
        sometimes: vec![],
    }
}

/// Many keys (more than any internal chunk, table or batch size): `nkeys` keys with one value
/// each, every third key with a second one, spread over the source replicas.
fn scenario_many_keys(agg: Agg, nkeys: i64, layout: Layout) -> Scenario {
    let mut input: Vec<KV> = vec![];
    for k in 0..nkeys {
        input.push((k, 1 + k % 7));
        if k % 3 == 0 {
            input.push((k, 100 + k % 5));
        }
    }
    let cores = layout.total_cores() as usize;
    let assign: Vec<usize> = (0..input.len()).map(|i| (i / 3) % cores).collect();
    scenario_on(agg, input, assign, layout, false, false, 0)
}

fn build(tier: Tier) -> Vec<Scenario> {
    let mut out = vec![];
    // multisets of (key, value): values distinct inside a key so that min/max elements are unique
    let mut inputs: Vec<Vec<KV>> = vec![vec![]];
    let syms: Vec<KV> = vec![(0, 1), (0, 2), (1, 4), (1, 8), (2, 16), (3, 32)];
    let maxn = if tier == Tier::Quick { 2 } else { 3 };
    for n in 1..=maxn {
        crate::e2::sequences(syms.len(), n, |s| {
            if s.windows(2).all(|w| w[0] < w[1]) {
                inputs.push(s.iter().map(|i| syms[*i]).collect());
            }
        });
    }
    // skewed / single key / more keys than replicas
    inputs.push(vec![(0, 1), (0, 2), (0, 64), (0, 128)]);
    inputs.push(vec![(0, 1), (1, 4), (2, 16), (3, 32), (4, 256)]);
    inputs.push(vec![(1, 4), (1, 8), (1, 512), (0, 1)]);
    let ps: Vec<u64> = if tier == Tier::Quick { vec![1, 2] } else { vec![1, 2, 3] };
    for agg in ALL {
        for input in &inputs {
            for &p in &ps {
                // all assignments of elements to replicas for small inputs, a spread for bigger ones
                let n = input.len();
                let mut assigns: Vec<Vec<usize>> = vec![];
                if n <= 3 {
                    crate::e2::sequences(p as usize, n, |a| assigns.push(a.to_vec()));
                } else {
                    assigns.push((0..n).map(|i| i % p as usize).collect());
                    assigns.push(vec![0; n]);
                    assigns.push((0..n).map(|i| (i / 2) % p as usize).collect());
                }
                for a in assigns {
                    for ts in [false, true] {
                        let bound = if n >= 4 { 1 } else { 0 };
                        out.push(scenario(agg, input.clone(), a.clone(), p, ts, false, if tier == Tier::Quick { bound } else { bound + 1 }));
                    }
                }
            }
        }
        // two hosts: the two phases of the associative forms and the key partitioning cross the
        // (virtual) network
        for layout in [Layout::Remote(vec![1, 1]), Layout::Remote(vec![2, 1])] {
            if tier == Tier::Quick && layout.total_cores() == 3 && !matches!(agg, Agg::GroupByFold | Agg::FoldAssoc | Agg::GroupByAvg) {
                continue;
            }
            let cores = layout.total_cores() as usize;
            for input in [vec![(0i64, 1i64), (0, 2), (1, 4), (1, 8), (2, 16)], vec![(0, 1), (0, 2), (0, 64)]] {
                for a in [(0..input.len()).map(|i| i % cores).collect::<Vec<_>>(), vec![cores - 1; input.len()]] {
                    out.push(scenario_on(agg, input.clone(), a, layout.clone(), true, false, if tier == Tier::Quick { 0 } else { 1 }));
                }
            }
            out.push(scenario_on(agg, vec![(0, 1), (1, 4), (0, 2)], vec![0, 1, 0], layout.clone(), false, true, 0));
        }
        // more keys than any internal chunk / table / batch size
        out.push(scenario_many_keys(agg, 2500, Layout::Local(2)));
        if tier == Tier::Thorough || matches!(agg, Agg::GroupByFold | Agg::GbFold) {
            out.push(scenario_many_keys(agg, 2500, Layout::Remote(vec![1, 1])));
        }
        // repeated iterations of the same aggregation
        for input in [vec![(0i64, 1i64), (1, 4), (0, 2)], vec![]] {
            out.push(scenario(agg, input.clone(), (0..input.len()).map(|i| i % 2).collect(), 2, false, true, 1));
        }
    }
    out
}

pub fn spec() -> PropSpec {
    PropSpec {
        id: "C07",
        build,
        rule: "14 aggregation forms (fold, reduce, fold_assoc, reduce_assoc, group_by+fold, group_by+reduce, group_by_fold, group_by_reduce, group_by_sum/count/avg/min_element/max_element, keyed rich_map counter) x all multisets of <= 2 (quick) / 3 (thorough) keyed values plus skewed, single-key and more-keys-than-replicas inputs x ALL assignments of the elements to 1-3 source replicas x timestamped or not, and inside a 2-round replay, plus 2500 distinct keys on 2 replicas / 2 hosts; a probe right after the aggregation sees, per iteration, exactly one result per occurring key (none for an empty input) equal to the sequential fold, stamped with the maximum input timestamp; schedules within the deviation bound; non-trivial = at least 2 input elements",
        assumptions: &["deviation bound as reported (0 for the smallest inputs: schedule independence of these pipelines is C01's subject)"],
        exhaustive_when_uncapped: false,
        budget_s: (50, 1500),
    }
}
