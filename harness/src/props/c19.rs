//! C19: all hosts derive the same, well-formed execution graph.
use std::collections::{BTreeMap, BTreeSet};
use std::sync::Arc;

use renoir::prelude::*;
use renoir::verif::graph::GraphDump;

use crate::driver::{PropSpec, Tier};
use crate::e2::loop_scenario;
use crate::explore::{Fail, Scenario};
use crate::kit::{erase, Layout, ScriptSource};
use crate::program::Instr::*;
use crate::program::{build as build_program, enumerate, show, well_formed, Instr, Program, Rep};

fn library(tier: Tier) -> Vec<Program> {
    let mut v: Vec<Program> = vec![
        vec![Map],
        vec![Shuffle, Map],
        vec![ReplOne, Map, Shuffle],
        vec![ReplLim2, Map],
        vec![ReplLim2, Shuffle, ReplLim2],
        vec![ReplHost, Map],
        vec![ReplHost, Shuffle, ReplOne],
        vec![ReplLim2, ReplHost],
        vec![ReplHost, ReplLim2],
        vec![ReplOne, ReplLim2],
        vec![GbSum],
        vec![GbFoldAssoc, Fold],
        vec![FoldAssoc],
        vec![BcastMax],
        vec![Dup, Map, Sink, Filter, Sink],
        vec![Dup, Map, Swap, Filter, Merge],
        vec![Dup, Shuffle, Swap, Shuffle, Merge],
        vec![Dup, Map, Join(0, 0, 0)],
        vec![Dup, Map, Join(1, 1, 0)],
        vec![Dup, Dup, Merge, Merge],
        vec![Replay(2, vec![Map])],
        vec![Replay(2, vec![Shuffle, GbSum])],
        vec![Iterate(2, vec![Map])],
        vec![Iterate(2, vec![Shuffle, Filter])],
        vec![Replay(2, vec![Shuffle, Replay(2, vec![Map])])],
        vec![Shuffle, Dup, Replay(1, vec![Map]), Swap, Fold, Merge],
    ];
    if tier == Tier::Thorough {
        let alphabet: Vec<Instr> = vec![Map, Shuffle, ReplOne, ReplLim2, ReplHost, GbSum, Fold, FoldAssoc, BcastMax, Dup, Merge, Join(0, 0, 0)];
        for l in 2..=3 {
            v.extend(enumerate(&alphabet, l, Rep::Unl));
        }
    }
    v.retain(|p| well_formed(p, Rep::Unl).is_some());
    v
}

fn layouts() -> Vec<Layout> {
    let mut v = vec![];
    for p in 1..=4 {
        v.push(Layout::Local(p));
    }
    for a in 1..=3u64 {
        v.push(Layout::Remote(vec![a]));
        for b in 1..=3u64 {
            v.push(Layout::Remote(vec![a, b]));
            for c in 1..=3u64 {
                v.push(Layout::Remote(vec![a, b, c]));
            }
        }
    }
    v
}

fn dump(layout: &Layout, host: usize, prog: &Program) -> Result<GraphDump, String> {
    std::panic::catch_unwind(std::panic::AssertUnwindSafe(|| {
        let env = layout.env(host);
        let s = erase(env.stream(ScriptSource::<i64>::new(vec![], renoir::Replication::Unlimited)));
        let _outs = build_program(s, prog);
        env.verif_execution_graph()
    }))
    .map_err(|p| crate::kit::panic_text(&p))
}

fn cores(layout: &Layout) -> Vec<u64> {
    match layout {
        Layout::Local(p) => vec![*p],
        Layout::Remote(h) => h.clone(),
    }
}

fn check_graph(layout: &Layout, prog: &Program) -> Option<Fail> {
    let descr = format!("program {} layout {}", show(prog), layout.name());
    let hosts = layout.hosts();
    let mut dumps = vec![];
    for h in 0..hosts {
        match dump(layout, h, prog) {
            Ok(d) => dumps.push(d),
            Err(p) => return Some(Fail::new("c19-panic", format!("{descr}: host {h} panicked building the graph: {p}"))),
        }
    }
    // 1. all hosts agree
    for h in 1..hosts {
        let (a, b) = (&dumps[0], &dumps[h]);
        if a.blocks != b.blocks {
            return Some(Fail::new("c19-hosts-disagree-replicas", format!("{descr}: host 0 and host {h} place replicas differently: {:?} vs {:?}", a.blocks, b.blocks)));
        }
        if a.links != b.links {
            return Some(Fail::new("c19-hosts-disagree-links", format!("{descr}: host 0 and host {h} derive different links")));
        }
        if a.addresses != b.addresses {
            return Some(Fail::new("c19-hosts-disagree-addresses", format!("{descr}: host 0 and host {h} derive different addresses: {:?} vs {:?}", a.addresses, b.addresses)));
        }
    }
    let d = &dumps[0];
    let cores = cores(layout);
    let total: u64 = cores.iter().sum();
    // 2. replicas per replication rule, distinct global ids
    let mut replicas_of: BTreeMap<u64, Vec<(u64, u64, u64)>> = BTreeMap::new();
    for b in &d.blocks {
        let mut expected: Vec<(u64, u64, u64)> = vec![];
        let rep = b.replication.as_str();
        if rep == "Unlimited" {
            for (h, c) in cores.iter().enumerate() {
                for r in 0..*c {
                    expected.push((b.id, h as u64, r));
                }
            }
        } else if rep == "Host" {
            for h in 0..cores.len() {
                expected.push((b.id, h as u64, 0));
            }
        } else if rep == "One" {
            expected.push((b.id, 0, 0));
        } else if let Some(n) = rep.strip_prefix("Limited(").and_then(|s| s.strip_suffix(')')).and_then(|s| s.parse::<u64>().ok()) {
            let mut left = n.min(total);
            for (h, c) in cores.iter().enumerate() {
                let k = left.min(*c);
                for r in 0..k {
                    expected.push((b.id, h as u64, r));
                }
                left -= k;
            }
        }
        let got: Vec<(u64, u64, u64)> = b.replicas.iter().map(|r| r.0).collect();
        if got != expected {
            return Some(Fail::new("c19-placement", format!("{descr}: block {} with replication {} has replicas {:?}, the rule gives {:?}", b.id, rep, got, expected)));
        }
        let mut gids: Vec<u64> = b.replicas.iter().map(|r| r.1).collect();
        gids.sort();
        if gids != (0..got.len() as u64).collect::<Vec<_>>() {
            return Some(Fail::new("c19-global-ids", format!("{descr}: block {} global ids {:?} are not a permutation of 0..{}", b.id, gids, got.len())));
        }
        replicas_of.insert(b.id, got);
    }
    // 3. links
    let only_one: BTreeMap<u64, bool> = d.blocks.iter().map(|b| (b.id, b.only_one)).collect();
    let link_set: BTreeSet<((u64, u64, u64), (u64, u64, u64))> = d.links.iter().map(|l| (l.0, l.1)).collect();
    if link_set.len() != d.links.len() {
        return Some(Fail::new("c19-duplicate-link", format!("{descr}: a link appears twice")));
    }
    for (from_b, to_b, fragile) in &d.job_edges {
        let from = &replicas_of[from_b];
        let to = &replicas_of[to_b];
        let forward = only_one[from_b] || *fragile;
        for f in from {
            let consumers: Vec<&(u64, u64, u64)> = to.iter().filter(|t| link_set.contains(&(*f, **t))).collect();
            if forward {
                if consumers.len() != 1 {
                    return Some(Fail::new(
                        if consumers.is_empty() { "c19-forward-no-consumer" } else { "c19-forward-many-consumers" },
                        format!("{descr}: forward link b{from_b}->b{to_b}: producer replica {:?} has {} consumers {:?} (consumer replicas {:?})", f, consumers.len(), consumers, to),
                    ));
                }
                if let Some(same) = to.iter().find(|t| t.1 == f.1 && t.2 == f.2) {
                    if consumers[0] != same {
                        return Some(Fail::new("c19-forward-not-same-index", format!("{descr}: forward link b{from_b}->b{to_b}: producer {:?} is wired to {:?} although the same-index replica exists", f, consumers[0])));
                    }
                }
            } else if consumers.len() != to.len() {
                return Some(Fail::new("c19-not-all-to-all", format!("{descr}: link b{from_b}->b{to_b}: producer {:?} reaches {} of {} consumer replicas", f, consumers.len(), to.len())));
            }
        }
    }
    // no link outside the job graph
    for (f, t) in &link_set {
        if !d.job_edges.iter().any(|e| e.0 == f.0 && e.1 == t.0) {
            return Some(Fail::new("c19-phantom-link", format!("{descr}: link {:?}->{:?} has no job graph edge", f, t)));
        }
    }
    // 4. addresses: one per (block, host, prev block) that has at least one link, distinct per
    // host, derived from the host's base port
    if let Layout::Remote(_) = layout {
        let mut per_host: BTreeMap<u64, Vec<u16>> = BTreeMap::new();
        let needed: BTreeSet<(u64, u64, u64)> = link_set.iter().map(|(f, t)| (t.0, t.1, f.0)).collect();
        let have: BTreeSet<(u64, u64, u64)> = d.addresses.iter().map(|a| a.0).collect();
        if needed != have {
            return Some(Fail::new("c19-address-missing", format!("{descr}: endpoints {:?} but addresses for {:?}", needed, have)));
        }
        for (coord, _addr, port) in &d.addresses {
            per_host.entry(coord.1).or_default().push(*port);
        }
        for (h, ports) in &per_host {
            let base = 10000 + 1000 * *h as u16;
            let mut sorted = ports.clone();
            sorted.sort();
            let exp: Vec<u16> = (0..ports.len() as u16).map(|i| base + i).collect();
            if sorted != exp {
                return Some(Fail::new("c19-address-collision", format!("{descr}: host {h} ports {:?}, expected the {} consecutive ports from base {base}", sorted, ports.len())));
            }
        }
    }
    None
}

fn build(tier: Tier) -> Vec<Scenario> {
    let lib = library(tier);
    let mut out = vec![];
    let layouts = layouts();
    // one scenario per program chunk to spread over processes
    let chunk = if tier == Tier::Thorough { 40 } else { 4 };
    for (ci, progs) in lib.chunks(chunk).enumerate() {
        let progs: Vec<Program> = progs.to_vec();
        let layouts = layouts.clone();
        out.push(loop_scenario(
            format!("C19/graphs/chunk{ci}"),
            format!("{} programs (first: {}) x {} host layouts (local 1..4; 1-3 hosts with 1..3 cores each) x every host", progs.len(), show(&progs[0]), layouts.len()),
            Arc::new(move || {
                let mut cases = 0;
                let mut nontrivial = 0;
                let mut fail = None;
                for p in &progs {
                    for l in &layouts {
                        if fail.is_some() {
                            break;
                        }
                        cases += 1;
                        if l.hosts() > 1 {
                            nontrivial += 1;
                        }
                        fail = check_graph(l, p);
                    }
                }
                (cases, nontrivial, fail)
            }),
        ));
    }
    out
}

pub fn spec() -> PropSpec {
    PropSpec {
        id: "C19",
        build,
        rule: "configuration enumeration without starting any thread: every program of a library covering all Replication variants, their successions, loops, multi-output blocks and joins (thorough: plus all well-formed programs of length 2-3 over a 12-instruction alphabet) x 4 local and 39 remote layouts (1-3 hosts, 1-3 cores each) x every host id; the execution-graph dump of each host must be equal, follow the placement rule of each Replication, number replicas 0..n, wire forward links one consumer per producer (same index when it exists) and others all-to-all, and give every remote endpoint a distinct port from its host's base port; non-trivial = multi-host layout",
        assumptions: &["hash-map iteration order inside the scheduler is not enumerated (the graph code only iterates Fx-hashed maps, deterministic given insertion order)"],
        exhaustive_when_uncapped: true,
        budget_s: (50, 900),
    }
}
