//! Helpers shared by the job-level (E1) checks.
use std::sync::Arc;

use renoir::prelude::*;
use renoir::BatchMode;

use crate::explore::{hash_of, Check, Fail, Scenario};
use crate::kit::{erase, log_sink, run_hosts, sink_rows, Layout, ScriptSource};
use crate::program::{build, reference, show, Program};
use crate::rt::{EnvParams, Ev, Order, Status};

pub const ORDERS3: [Order; 3] = [Order::RunAsc, Order::RunDesc, Order::RoundRobin];

pub const SINK_TAGS: [&str; 4] = ["sink0", "sink1", "sink2", "sink3"];

#[derive(Clone, Debug)]
pub struct JobCfg {
    pub layout: Layout,
    pub batch: BatchMode,
    pub capacity: usize,
}

impl JobCfg {
    pub fn name(&self) -> String {
        let b = match self.batch {
            BatchMode::Single => "single".to_string(),
            BatchMode::Fixed(n) => format!("fixed{n}"),
            BatchMode::Adaptive(n, d) => format!("adaptive{}-{}ms", n, d.as_millis()),
        };
        format!("{}-{}-cap{}", self.layout.name(), b, self.capacity)
    }
}

/// Where the input comes from: a single-replica iterator source, or the parallel range source.
#[derive(Clone, Debug, PartialEq, Eq)]
#[allow(dead_code)]
pub enum SrcKind {
    Iter,
    /// scripted source with one replica per core; element i goes to replica `assign[i]`
    Par(Vec<usize>),
}

/// The body of a "program" scenario: build the job on every host, run it, log every sink.
pub fn program_body(prog: Program, input: Vec<i64>, src: SrcKind, cfg: JobCfg) -> crate::explore::Body {
    Arc::new(move || {
        let prog = prog.clone();
        let input = input.clone();
        let src = src.clone();
        let batch = cfg.batch;
        let cores = cfg.layout.total_cores() as usize;
        let job: Arc<dyn Fn(usize, StreamContext) + Send + Sync> = Arc::new(move |host, env| {
            let s = match &src {
                SrcKind::Iter => erase(env.stream_iter(input.clone().into_iter()).batch_mode(batch)),
                SrcKind::Par(assign) => {
                    let mut scripts = vec![vec![]; cores];
                    for (i, x) in input.iter().enumerate() {
                        scripts[assign[i] % cores].push(renoir::operator::StreamElement::Item(*x));
                    }
                    erase(
                        env.stream(ScriptSource::new(scripts, renoir::Replication::Unlimited))
                            .batch_mode(batch),
                    )
                }
            };
            let outs = build(s, &prog);
            // whatever happens, look at what the sinks published
            let r = std::panic::catch_unwind(std::panic::AssertUnwindSafe(|| env.execute_blocking()));
            for (i, o) in outs.into_iter().enumerate() {
                log_sink(SINK_TAGS[i], host, o.get());
            }
            if let Err(p) = r {
                std::panic::resume_unwind(p);
            }
        });
        let res = run_hosts(&cfg.layout, job);
        for (h, r) in res.into_iter().enumerate() {
            if let Some(p) = r {
                crate::rt::log(Ev::Text("host-panic", format!("{h}: {p}")));
            }
        }
    })
}

/// Oracle of a "program" scenario: terminated, every sink published exactly once, with the
/// reference multiset.
pub fn program_check(prog: &Program, input: &[i64], sig_prefix: String, hosts: usize) -> Check {
    let expected = reference(input, prog);
    // sinks in program order, then the implicit collect_vec of whatever is left on the stack
    let mut all_hosts: Vec<bool> = prog.iter().filter(|i| i.is_sink()).map(|i| i.on_all_hosts()).collect();
    all_hosts.resize(expected.len(), false);
    Arc::new(move |r| {
        match &r.status {
            Status::Done => {}
            Status::Deadlock(b) => {
                return Err(Fail::new(
                    format!("{sig_prefix}deadlock"),
                    format!("deadlock, blocked: {b}"),
                ))
            }
            other => {
                return Err(Fail::new(
                    format!("{sig_prefix}abnormal"),
                    format!("abnormal end: {:?}", other),
                ))
            }
        }
        for e in &r.log {
            if let Ev::Text("host-panic", t) = e {
                return Err(Fail::new(
                    format!("{sig_prefix}panic"),
                    format!("execute_blocking panicked on host {t}"),
                ));
            }
            if let Ev::Race(t) = e {
                return Err(Fail::new(format!("{sig_prefix}race"), t.clone()));
            }
        }
        for (i, exp) in expected.iter().enumerate() {
            let (published, rows) = sink_rows(&r.log, SINK_TAGS[i]);
            let want = if all_hosts[i] { hosts } else { 1 };
            if published != want {
                return Err(Fail::new(
                    format!("{sig_prefix}sink-published-{published}"),
                    format!("sink {i} published {published} times, expected {want}"),
                ));
            }
            let got: Vec<i64> = rows.unwrap().into_iter().map(|r| r[0]).collect();
            let mut exp_all: Vec<i64> = vec![];
            for _ in 0..want {
                exp_all.extend(exp.iter().copied());
            }
            exp_all.sort();
            let exp = &exp_all;
            if &got != exp {
                return Err(Fail::new(
                    format!("{sig_prefix}wrong-result"),
                    if got.len() + exp.len() > 80 {
                        let mut g2 = got.clone();
                        g2.sort();
                        let first = g2.iter().zip(exp.iter()).position(|(a, b)| a != b);
                        format!("sink {i}: got {} elements, the sequential meaning has {}; the sorted results first differ at position {:?}", got.len(), exp.len(), first)
                    } else {
                        format!("sink {i}: got {:?}, sequential meaning is {:?}", got, exp)
                    },
                ));
            }
        }
        Ok(hash_of(&r.log))
    })
}

pub fn env_params(cfg: &JobCfg) -> EnvParams {
    EnvParams {
        channel_capacity: cfg.capacity,
        random_arity: cfg.layout.total_cores().max(1) as usize,
        observe_links: false,
        ..Default::default()
    }
}

#[allow(clippy::too_many_arguments)]
pub fn program_scenario(
    prefix: &str,
    prog: &Program,
    input: &[i64],
    src: SrcKind,
    cfg: &JobCfg,
    bound: usize,
    orders: &[Order],
    sig_prefix: String,
) -> Scenario {
    let name = format!(
        "{prefix}/{}/in{:?}/{}/{}",
        show(prog),
        input,
        match &src {
            SrcKind::Iter => "iter".to_string(),
            SrcKind::Par(a) => format!("par{:?}", a),
        },
        cfg.name()
    );
    Scenario {
        descr: format!(
            "program {} input {:?} source {:?} config {}",
            show(prog),
            input,
            src,
            cfg.name()
        ),
        name,
        params: env_params(cfg),
        body: program_body(prog.clone(), input.to_vec(), src, cfg.clone()),
        check: program_check(prog, input, sig_prefix, cfg.layout.hosts()),
        bound,
        orders: orders.to_vec(),
        max_execs: 0,
        shards: 1,
        nontrivial: !input.is_empty(),
        unbounded: false,
        loop_body: false,
        sometimes: vec![],
    }
}

impl SrcKind {
    pub fn rep(&self) -> crate::program::Rep {
        match self {
            SrcKind::Iter => crate::program::Rep::One,
            SrcKind::Par(_) => crate::program::Rep::Unl,
        }
    }
}

/// Like `program_body` but with a probe after every instruction (`build_probed`).
pub fn program_body_probed(prog: Program, input: Vec<i64>, src: SrcKind, cfg: JobCfg) -> crate::explore::Body {
    Arc::new(move || {
        let prog = prog.clone();
        let input = input.clone();
        let src = src.clone();
        let batch = cfg.batch;
        let cores = cfg.layout.total_cores() as usize;
        let job: Arc<dyn Fn(usize, StreamContext) + Send + Sync> = Arc::new(move |host, env| {
            let s = match &src {
                SrcKind::Iter => erase(env.stream_iter(input.clone().into_iter()).batch_mode(batch)),
                SrcKind::Par(assign) => {
                    let mut scripts = vec![vec![]; cores];
                    for (i, x) in input.iter().enumerate() {
                        scripts[assign[i] % cores].push(renoir::operator::StreamElement::Item(*x));
                    }
                    erase(
                        env.stream(ScriptSource::new(scripts, renoir::Replication::Unlimited))
                            .batch_mode(batch),
                    )
                }
            };
            let outs = crate::program::build_probed(s, &prog);
            // whatever happens, look at what the sinks published
            let r = std::panic::catch_unwind(std::panic::AssertUnwindSafe(|| env.execute_blocking()));
            for (i, o) in outs.into_iter().enumerate() {
                log_sink(SINK_TAGS[i], host, o.get());
            }
            if let Err(p) = r {
                std::panic::resume_unwind(p);
            }
        });
        let res = run_hosts(&cfg.layout, job);
        for (h, r) in res.into_iter().enumerate() {
            if let Some(p) = r {
                crate::rt::log(Ev::Text("host-panic", format!("{h}: {p}")));
            }
        }
    })
}

/// The grammar of C05 at every probe, for every replica.
pub fn probe_grammar(logv: &[Ev]) -> Result<(), Fail> {
    probe_grammar_n(logv, None)
}

/// `fars`: the number of ends of iteration every probe must see (1 for a job without loops).
pub fn probe_grammar_n(logv: &[Ev], fars: Option<usize>) -> Result<(), Fail> {
    use std::collections::BTreeMap;
    let mut seqs: BTreeMap<(u32, (u64, u64, u64)), Vec<(u8, Option<i64>)>> = BTreeMap::new();
    for e in logv {
        if let Ev::Probe(id, coord, k, ts, _) = e {
            if *k != crate::kit::K_FB {
                seqs.entry((*id, *coord)).or_default().push((*k, *ts));
            }
        }
    }
    for ((id, coord), sh) in &seqs {
        if let Some((sig, msg)) = crate::e2::grammar(sh) {
            return Err(Fail::new(
                format!("c05-job-grammar-{sig}"),
                format!("probe {id} on replica {:?}: {msg}; sequence of kinds {:?}", coord, sh.iter().map(|x| x.0).collect::<Vec<_>>()),
            ));
        }
        if let Some(n) = fars {
            let got = sh.iter().filter(|x| x.0 == crate::kit::K_FAR).count();
            if got != n {
                return Err(Fail::new(
                    "c05-job-grammar-ends-of-iteration",
                    format!("probe {id} on replica {:?} saw {got} ends of iteration, the job has {n}; sequence of kinds {:?}", coord, sh.iter().map(|x| x.0).collect::<Vec<_>>()),
                ));
            }
        }
    }
    Ok(())
}

/// Quick tier: explore a few core scenarios one deviation deeper (one canonical order, split
/// over 4 processes). `pick` selects them by name.
pub fn deepen(out: &mut Vec<Scenario>, pick: &dyn Fn(&str) -> bool) {
    let mut extra = vec![];
    for s in out.iter() {
        if pick(&s.name) && !s.unbounded && !s.loop_body {
            let mut c = s.clone();
            c.bound = s.bound + 1;
            c.orders = vec![s.orders[0]];
            c.shards = 4;
            c.name = format!("{}#deep", s.name);
            extra.push(c);
        }
    }
    out.extend(extra);
}
