//! C03: each connection kind routes elements to exactly the replicas it promises; control
//! elements reach every connected replica.
use std::collections::{BTreeMap, BTreeSet};
use std::sync::Arc;

use renoir::operator::StreamElement;
use renoir::prelude::*;
use renoir::verif::observe::Event;
use renoir::{BatchMode, Replication};

use crate::driver::{PropSpec, Tier};
use crate::explore::{hash_of, Check, Fail, Scenario};
use crate::kit::{run_hosts, Layout, ScriptSource, C3};
use crate::rt::{log, EnvParams, Ev, Kind, Order, Status};

#[derive(Clone, Copy, Debug, PartialEq, Eq)]
enum Conn {
    Forward(Replication),
    GroupBy,
    Shuffle,
    Broadcast,
    /// hash join: both inputs must meet on the replica chosen by the key
    JoinHash,
    /// split(2): two downstream blocks, forward to each
    Split2,
    /// route with 2 predicates (first matching wins, x%16 >= 12 unmatched)
    Route,
    /// a group_by stream joined (forward, keyed join) with a two-phase group_by_count stream:
    /// both key-partitioned connections must send a key to the same replica index
    KeyedJoinAcrossGroupBys,
}

const KEYS: i64 = 16;

fn elements(producers: u64, per_producer: usize, nkeys: i64, watermark: bool) -> Vec<Vec<StreamElement<i64>>> {
    // producer g emits keys g, g+1, ... (mod nkeys), payload = key + 16 * (g * 8 + seq + 1)
    (0..producers)
        .map(|g| {
            let mut v: Vec<StreamElement<i64>> = (0..per_producer)
                .map(|s| {
                    let key = (g as i64 + s as i64) % nkeys;
                    StreamElement::Item(key + KEYS * (g as i64 * 8 + s as i64 + 1))
                })
                .collect();
            // one watermark per producer, to see control elements on every link
            if watermark {
                v.insert(v.len() / 2, StreamElement::Watermark(5));
            }
            v
        })
        .collect()
}

fn build_job(env: &StreamContext, conn: Conn, scripts: Vec<Vec<StreamElement<i64>>>) {
    let src = |scripts: Vec<Vec<StreamElement<i64>>>| {
        env.stream(ScriptSource::new(scripts, Replication::Unlimited))
            .batch_mode(BatchMode::fixed(2))
    };
    match conn {
        Conn::Forward(r) => {
            src(scripts).replication(r).for_each(|_| {});
        }
        Conn::GroupBy => {
            src(scripts).group_by(|x: &i64| x % KEYS).for_each(|_| {});
        }
        Conn::Shuffle => {
            src(scripts).shuffle().for_each(|_| {});
        }
        Conn::Broadcast => {
            src(scripts).broadcast().for_each(|_| {});
        }
        Conn::JoinHash => {
            let a = src(scripts.clone());
            let b = src(scripts.into_iter().rev().collect());
            a.join(b, |x: &i64| x % KEYS, |y: &i64| y % KEYS).for_each(|_| {});
        }
        Conn::KeyedJoinAcrossGroupBys => {
            // both sources first, so that they are blocks 0 and 1
            let sa = src(scripts.clone());
            let sb = src(scripts.into_iter().rev().collect());
            let a = sa.group_by(|x: &i64| x % KEYS);
            let b = sb.group_by_count(|x: &i64| x % KEYS);
            a.join(b).for_each(|_| {});
        }
        Conn::Split2 => {
            let mut v = src(scripts).split(2);
            v.pop().unwrap().for_each(|_| {});
            v.pop().unwrap().for_each(|_| {});
        }
        Conn::Route => {
            let mut v = src(scripts)
                .route()
                .add_route(|x: &i64| x % KEYS < 8)
                .add_route(|x: &i64| x % KEYS < 12)
                .build();
            v.pop().unwrap().for_each(|_| {});
            v.pop().unwrap().for_each(|_| {});
        }
    }
}

fn decode(bytes: &[u8]) -> Option<i64> {
    match bincode::deserialize::<StreamElement<i64>>(bytes).ok()? {
        StreamElement::Item(x) | StreamElement::Timestamped(x, _) => Some(x),
        _ => None,
    }
}

/// (key, partial count) elements of the second phase of group_by_count
fn decode_keyed(bytes: &[u8]) -> Option<i64> {
    match bincode::deserialize::<StreamElement<(i64, usize)>>(bytes).ok()? {
        StreamElement::Item(x) | StreamElement::Timestamped(x, _) => Some(x.0),
        _ => None,
    }
}

fn scenario(conn: Conn, layout: Layout, per_producer: usize, nkeys: i64, bound: usize) -> Scenario {
    let cores = layout.total_cores();
    // (joins reject watermarks: "Cannot yet join timestamped streams")
    let with_wm = conn != Conn::JoinHash && conn != Conn::KeyedJoinAcrossGroupBys;
    let scripts = elements(cores, per_producer, nkeys, with_wm);
    let name = format!("C03/{:?}/{}/n{}k{}", conn, layout.name(), per_producer, nkeys).replace(' ', "");
    let layout2 = layout.clone();
    let scripts2 = scripts.clone();
    let body: crate::rt::Body = Arc::new(move || {
        // the graph this configuration derives (no threads), for the set of connected replicas
        let env = layout2.env(0);
        build_job(&env, conn, scripts2.clone());
        let g = env.verif_execution_graph();
        for l in &g.links {
            log(Ev::Note("link", vec![l.0 .0 as i64, l.0 .1 as i64, l.0 .2 as i64, l.1 .0 as i64, l.1 .1 as i64, l.1 .2 as i64]));
        }
        for b in &g.blocks {
            for r in &b.replicas {
                log(Ev::Note("replica", vec![r.0 .0 as i64, r.0 .1 as i64, r.0 .2 as i64]));
            }
        }
        let scripts3 = scripts2.clone();
        let res = run_hosts(
            &layout2,
            Arc::new(move |_h, env| {
                build_job(&env, conn, scripts3.clone());
                env.execute_blocking();
            }),
        );
        for (h, r) in res.into_iter().enumerate() {
            if let Some(p) = r {
                log(Ev::Text("host-panic", format!("{h}: {p}")));
            }
        }
    });
    let n_sources: u64 = if conn == Conn::JoinHash || conn == Conn::KeyedJoinAcrossGroupBys { 2 } else { 1 };
    let layout_name = layout.name();
    let descr_s = format!("{} producers x {} elements over {} keys through a {:?} connection on {}", cores, per_producer, nkeys, conn, layout_name);
    let check: Check = Arc::new(move |r| {
        if r.status != Status::Done {
            return Err(Fail::new("c03-abnormal", format!("{:?}", r.status)));
        }
        let mut links: BTreeSet<(C3, C3)> = BTreeSet::new();
        let mut replicas: BTreeMap<u64, Vec<C3>> = BTreeMap::new();
        for e in &r.log {
            match e {
                Ev::Text("host-panic", t) => return Err(Fail::new("c03-panic", t.clone())),
                Ev::Note("link", v) => {
                    links.insert(((v[0] as u64, v[1] as u64, v[2] as u64), (v[3] as u64, v[4] as u64, v[5] as u64)));
                }
                Ev::Note("replica", v) => replicas.entry(v[0] as u64).or_default().push((v[0] as u64, v[1] as u64, v[2] as u64)),
                _ => {}
            }
        }
        // per (producer, downstream block): element -> destinations ; control counts per link
        let mut dests: BTreeMap<(C3, u64, i64), Vec<C3>> = BTreeMap::new();
        let mut control: BTreeMap<(C3, C3), [usize; 3]> = BTreeMap::new(); // watermark, far, terminate
        for e in &r.log {
            if let Ev::Repo(Event::Sent { from, to, elems, .. }) = e {
                if from.0 >= n_sources {
                    continue;
                }
                for el in elems {
                    match el.kind {
                        0 | 1 => {
                            let x = decode(&el.bytes).ok_or_else(|| Fail::new("c03-undecodable", "cannot decode element"))?;
                            dests.entry((*from, to.0, x)).or_default().push(*to);
                        }
                        2 => control.entry((*from, *to)).or_default()[0] += 1,
                        5 => control.entry((*from, *to)).or_default()[1] += 1,
                        4 => control.entry((*from, *to)).or_default()[2] += 1,
                        _ => {}
                    }
                }
            }
        }
        let descr = format!("{:?} on {}", conn, layout_name);
        // control elements reach every connected replica, once each
        for (f, t) in links.iter().filter(|(f, _)| f.0 < n_sources) {
            let c = control.get(&(*f, *t)).copied().unwrap_or([0; 3]);
            if c != [with_wm as usize, 1, 1] {
                return Err(Fail::new(
                    "c03-control-not-everywhere",
                    format!("{descr}: link {:?}->{:?} carried {} watermarks, {} end-of-iteration and {} termination markers (1 each expected)", f, t, c[0], c[1], c[2]),
                ));
            }
        }
        for ((f, t), _) in control.iter() {
            if !links.contains(&(*f, *t)) {
                return Err(Fail::new("c03-control-off-graph", format!("{descr}: control element sent on {:?}->{:?} which is not a link", f, t)));
            }
        }
        if conn == Conn::KeyedJoinAcrossGroupBys {
            // key -> (host, replica) must be one function over both key-partitioned connections
            let mut place: BTreeMap<i64, ((u64, u64), u64)> = BTreeMap::new();
            let mut n = 0;
            for e in &r.log {
                if let Ev::Repo(Event::Sent { from, to, elems, .. }) = e {
                    if from.0 >= n_sources {
                        continue;
                    }
                    for el in elems.iter().filter(|el| el.kind <= 1) {
                        let key = if from.0 == 0 { decode(&el.bytes).map(|x| x % KEYS) } else { decode_keyed(&el.bytes) };
                        let key = key.ok_or_else(|| Fail::new("c03-undecodable", "cannot decode element"))?;
                        n += 1;
                        let here = ((to.1, to.2), to.0);
                        let prev = place.entry(key).or_insert(here);
                        if prev.0 != here.0 {
                            return Err(Fail::new(
                                "c03-key-split-across-connections",
                                format!("{descr}: key {key} is sent to replica {:?} of block {} and to replica {:?} of block {}: the two inputs of the keyed join do not meet", prev.0, prev.1, here.0, here.1),
                            ));
                        }
                    }
                }
            }
            return Ok(hash_of(&(place, n)));
        }
        // data elements
        let mut key_dest: BTreeMap<(u64, i64), C3> = BTreeMap::new(); // (downstream block, key) -> replica
        let mut fwd_dest: BTreeMap<(C3, u64), C3> = BTreeMap::new();
        // every element of every producer must have been routed (or dropped by an unmatched route)
        for (g, script) in scripts.iter().enumerate() {
            for el in script {
                if let StreamElement::Item(x) = el {
                    for src_block in 0..n_sources {
                        let producer = replicas[&src_block].iter().copied().find(|c| {
                            // global id = position in (host, replica) order
                            let mut all = replicas[&src_block].clone();
                            all.sort();
                            all.iter().position(|d| d == c) == Some(if src_block == 0 { g } else { scripts.len() - 1 - g })
                        });
                        let Some(producer) = producer else { continue };
                        let downstream: BTreeSet<u64> = links.iter().filter(|(f, _)| *f == producer).map(|(_, t)| t.0).collect();
                        let mut delivered_blocks = 0;
                        for b in &downstream {
                            let d = dests.get(&(producer, *b, *x)).cloned().unwrap_or_default();
                            let consumers: Vec<C3> = replicas[b].clone();
                            let key = x % KEYS;
                            match conn {
                                Conn::Broadcast => {
                                    let mut dd = d.clone();
                                    dd.sort();
                                    let mut cc = consumers.clone();
                                    cc.sort();
                                    if dd != cc {
                                        return Err(Fail::new("c03-broadcast", format!("{descr}: element {x} of {:?} delivered to {:?}, replicas are {:?}", producer, dd, cc)));
                                    }
                                    delivered_blocks += 1;
                                }
                                Conn::Route => {
                                    // first matching route wins: block order = route order
                                    let blocks: Vec<u64> = downstream.iter().copied().collect();
                                    let want = if key < 8 { Some(blocks[0]) } else if key < 12 { Some(blocks[1]) } else { None };
                                    let exp = if want == Some(*b) { 1 } else { 0 };
                                    if d.len() != exp {
                                        return Err(Fail::new("c03-route", format!("{descr}: element {x} (key {key}) of {:?} delivered {} times to block {b} (routes: key<8 -> {}, key<12 -> {})", producer, d.len(), blocks[0], blocks[1])));
                                    }
                                    delivered_blocks += 1;
                                }
                                _ => {
                                    if d.len() != 1 {
                                        return Err(Fail::new(
                                            if d.is_empty() { "c03-not-delivered" } else { "c03-delivered-twice" },
                                            format!("{descr}: element {x} of {:?} delivered to {:?} of block {b}", producer, d),
                                        ));
                                    }
                                    delivered_blocks += 1;
                                    match conn {
                                        Conn::GroupBy | Conn::JoinHash => {
                                            let prev = key_dest.entry((*b, key)).or_insert(d[0]);
                                            if *prev != d[0] {
                                                return Err(Fail::new("c03-key-split", format!("{descr}: key {key} goes to {:?} and to {:?}", prev, d[0])));
                                            }
                                        }
                                        Conn::Forward(_) | Conn::Split2 => {
                                            let same = consumers.iter().find(|c| c.1 == producer.1 && c.2 == producer.2);
                                            if let Some(s) = same {
                                                if d[0] != *s {
                                                    return Err(Fail::new("c03-forward-not-same-index", format!("{descr}: element of {:?} forwarded to {:?}", producer, d[0])));
                                                }
                                            }
                                            let prev = fwd_dest.entry((producer, *b)).or_insert(d[0]);
                                            if *prev != d[0] {
                                                return Err(Fail::new("c03-forward-spread", format!("{descr}: producer {:?} forwards to {:?} and {:?}", producer, prev, d[0])));
                                            }
                                        }
                                        _ => {}
                                    }
                                }
                            }
                        }
                        if delivered_blocks != downstream.len() || downstream.is_empty() {
                            return Err(Fail::new("c03-no-downstream", format!("{descr}: producer {:?} has downstream blocks {:?}", producer, downstream)));
                        }
                    }
                }
            }
        }
        // nothing was sent that the scripts do not contain
        let known: BTreeSet<i64> = scripts.iter().flatten().filter_map(|e| if let StreamElement::Item(x) = e { Some(*x) } else { None }).collect();
        for ((_, _, x), _) in dests.iter() {
            if !known.contains(x) {
                return Err(Fail::new("c03-phantom", format!("{descr}: unknown element {x} sent")));
            }
        }
        let routing: Vec<_> = dests.iter().collect();
        Ok(hash_of(&routing))
    });
    Scenario {
        name,
        descr: descr_s,
        params: EnvParams {
            observe_links: true,
            random_arity: cores as usize,
            free_kinds: vec![Kind::Driver, Kind::Random],
            ..Default::default()
        },
        body,
        check,
        bound,
        orders: vec![Order::RunAsc],
        max_execs: 0,
        shards: 1,
        nontrivial: true,
        unbounded: false,
        loop_body: false,
        sometimes: vec![],
    }
}

fn build(tier: Tier) -> Vec<Scenario> {
    let mut out = vec![];
    let layouts: Vec<Layout> = match tier {
        Tier::Quick => vec![Layout::Local(1), Layout::Local(2), Layout::Local(3), Layout::Local(4), Layout::Remote(vec![2, 1]), Layout::Remote(vec![1, 2])],
        Tier::Thorough => vec![
            Layout::Local(1), Layout::Local(2), Layout::Local(3), Layout::Local(4),
            Layout::Remote(vec![1, 1]), Layout::Remote(vec![2, 1]), Layout::Remote(vec![1, 2]), Layout::Remote(vec![3, 1]), Layout::Remote(vec![1, 1, 1]), Layout::Remote(vec![2, 2]),
        ],
    };
    let conns = [
        Conn::Forward(Replication::Unlimited),
        Conn::Forward(Replication::One),
        Conn::Forward(Replication::Limited(2)),
        Conn::Forward(Replication::Limited(3)),
        Conn::Forward(Replication::Host),
        Conn::GroupBy,
        Conn::Broadcast,
        Conn::JoinHash,
        Conn::Split2,
        Conn::Route,
        Conn::KeyedJoinAcrossGroupBys,
    ];
    for l in &layouts {
        for c in conns {
            // all 16 keys from every producer; routing does not depend on the schedule, the
            // bound only confirms that
            out.push(scenario(c, l.clone(), 16, KEYS, if tier == Tier::Quick { 0 } else { 1 }));
        }
        // shuffle: every destination choice of <= 3 elements per producer is enumerated
        if l.total_cores() <= 3 {
            out.push(scenario(Conn::Shuffle, l.clone(), if l.total_cores() <= 2 { 3 } else { 2 }, 3, 0));
        }
    }
    if tier == Tier::Quick {
        crate::props::common::deepen(&mut out, &|n| n.contains("/local2/") || n.contains("/local3/"));
    }
    // slow sources and timed batching: control elements still reach every replica in time
    out.extend(crate::props::timed::scenarios("C03", tier == Tier::Quick, "C03"));
    // a connection inside a loop body: watermarks and ends of iteration reach every downstream
    // replica in every round (event time starts over in each)
    out.extend(crate::props::c17::loop_jobs(tier == Tier::Quick, false).into_iter().map(|mut s| {
        s.name = s.name.replace("C17/", "C03/loop/");
        s
    }));
    out
}

pub fn spec() -> PropSpec {
    PropSpec {
        id: "C03",
        build,
        rule: "connection kind in {forward to Unlimited/One/Limited(2)/Limited(3)/Host, group-by, broadcast, hash join (both inputs), split into two downstream blocks, route with overlapping predicates, shuffle} x layouts (local 1..4, remote 2+1, 1+2, 1+1, 3+1, 1+1+1, 2+2) x all 16 keys from every producer replica; the send observer records where each element and each control element goes and the oracle is the routing rule of the statement (same-index / single replica, function of the key across producers and join sides, exactly one, every replica; watermark + end-of-iteration + termination once on every link of the derived graph); random destinations of shuffle are enumerated completely",
        assumptions: &["routing is decided at the sending side, so one schedule per configuration already determines it; the deviation bound of the thorough tier only confirms schedule independence"],
        exhaustive_when_uncapped: true,
        budget_s: (50, 900),
    }
}
