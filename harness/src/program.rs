//! Programs as data: a small stack machine over streams of `i64`, a builder that turns a program
//! into a real job through the public API, and an independent sequential reference interpreter.
//!
//! Every keyed / paired intermediate result is immediately encoded back into one `i64`, so the
//! stack holds a single stream type and all well-typed programs can be enumerated mechanically.
use renoir::operator::Operator;
use renoir::prelude::*;
use renoir::{Replication, Stream};

use crate::kit::{erase, probe, DS};

#[derive(Clone, Debug, PartialEq, Eq, Hash)]
pub enum Instr {
    Map,
    Filter,
    FlatMap,
    Shuffle,
    ReplOne,
    ReplLim2,
    ReplHost,
    /// back to unlimited replication through a forward connection
    ReplUnl,
    /// group_by(x%3) + fold(sum)
    GbSum,
    /// group_by(x%2) + reduce(max)
    GbReduceMax,
    /// group_by_fold(x%3, sum, sum)
    GbFoldAssoc,
    /// group_by_reduce(x%2, max)
    GbReduceAssoc,
    Fold,
    FoldAssoc,
    Reduce,
    ReduceAssoc,
    /// broadcast, then an idempotent keyed max
    BcastMax,
    /// key_by(x%2).map(v+1).drop_key
    KeyedMap,
    /// fault injection (harness operator): panic when replica `r` of the enclosing block sees its
    /// `k`-th element (1-based); identity otherwise
    PanicAt(u64, usize),
    /// group_by(x%2) + exact tumbling count window of 2 + sum (order dependent: only generated on
    /// fully sequential configurations)
    CountWin,
    // ---- breadth of the public API (each is a fixed small pipeline, see `unary`) ----
    /// rich_map with a stateless closure
    RichMap,
    RichFilterMap,
    RichFlatMap,
    /// map(x -> [x, x+5]).flatten()
    Flatten,
    Inspect,
    MapMemo,
    MapMemoBy,
    /// map(x % 3).unique_assoc()
    UniqueAssoc,
    /// key_by(x%2) . filter . filter_map . flat_map . inspect . drop_key
    KeyedPipe,
    /// key_by(x%2) . rich_filter_map . rich_flat_map . map(vec) . flatten . drop_key . map_memo
    KeyedRich,
    /// key_by(x%2).shuffle()
    KeyedShuffle,
    /// repartition_by(Unlimited, x % 5)
    RepartBy,
    /// add_timestamps (no watermarks) . drop_timestamps
    Stamp,
    /// add_timestamps (no watermarks) . shuffle . drop_timestamps
    StampShuffle,
    /// key_by(x%2).add_timestamps.drop_timestamps.drop_key
    KeyedStamp,
    /// window_all(tumbling count window of 2).count()
    WinAllCount,
    /// a.key_by(x%2).merge(b.key_by(x%2)).drop_key()
    KeyedMerge,
    /// the other sinks: collect_count, collect_vec_all, collect::<VecDeque>, collect_all::<VecDeque>,
    /// collect_channel, collect_channel_parallel, for_each
    SinkCount,
    SinkVecAll,
    SinkCollect,
    SinkCollectAll,
    SinkChan,
    SinkChanPar,
    SinkForEach,
    Dup,
    Swap,
    Merge,
    /// 0 inner, 1 left, 2 outer; ship: 0 hash, 1 broadcast-right; local: 0 hash, 1 sort-merge
    Join(u8, u8, u8),
    /// replay(rounds, body) : state = sum of body outputs of all rounds; output = final state
    Replay(usize, Vec<Instr>),
    /// iterate(rounds, body): output = elements after `rounds` applications of body
    Iterate(usize, Vec<Instr>),
    Sink,
}

impl Instr {
    pub fn is_sink(&self) -> bool {
        self.arity() == (1, 0)
    }
    /// does this sink publish on every host?
    pub fn on_all_hosts(&self) -> bool {
        matches!(self, Instr::SinkVecAll | Instr::SinkCollectAll)
    }
    pub fn arity(&self) -> (usize, usize) {
        match self {
            Instr::Dup => (1, 2),
            Instr::Swap => (2, 2),
            Instr::Merge | Instr::KeyedMerge | Instr::Join(..) => (2, 1),
            Instr::Sink
            | Instr::SinkCount
            | Instr::SinkVecAll
            | Instr::SinkCollect
            | Instr::SinkCollectAll
            | Instr::SinkChan
            | Instr::SinkChanPar
            | Instr::SinkForEach => (1, 0),
            _ => (1, 1),
        }
    }
}

pub type Program = Vec<Instr>;

pub fn show(p: &Program) -> String {
    p.iter()
        .map(|i| format!("{:?}", i))
        .collect::<Vec<_>>()
        .join(".")
}

// the fixed, deterministic user functions --------------------------------------------------------
fn f_map(x: i64) -> i64 {
    (x * 3 + 1) % 17
}
fn f_filter(x: &i64) -> bool {
    x % 3 != 0
}
fn f_flat(x: i64) -> Vec<i64> {
    if x % 2 == 0 {
        vec![x, x + 10]
    } else {
        vec![]
    }
}
fn f_rfm(x: i64) -> Option<i64> {
    if x % 3 != 1 {
        Some(x * 2)
    } else {
        None
    }
}
fn f_rflat(x: i64) -> Vec<i64> {
    vec![x; (x.rem_euclid(3)) as usize]
}
fn f_memo(x: i64) -> i64 {
    (x * x) % 11
}
fn f_keyed_pipe(v: i64) -> Vec<i64> {
    if v % 3 == 0 {
        vec![]
    } else {
        vec![v + 1, v + 21]
    }
}
fn enc_kv(k: i64, v: i64) -> i64 {
    k * 1000 + v
}
fn enc_pair(l: Option<i64>, r: Option<i64>) -> i64 {
    (l.map(|x| x + 1).unwrap_or(0)) * 100 + r.map(|x| x + 1).unwrap_or(0)
}

// ---------------------------------------------------------------------------------------------
// builder

fn unary<O: Operator<Out = i64> + 'static>(s: Stream<O>, i: &Instr) -> DS<i64> {
    match i {
        Instr::Map => erase(s.map(f_map)),
        Instr::Filter => erase(s.filter(f_filter)),
        Instr::FlatMap => erase(s.flat_map(f_flat)),
        Instr::Shuffle => erase(s.shuffle()),
        Instr::ReplOne => erase(s.replication(Replication::One)),
        Instr::ReplLim2 => erase(s.replication(Replication::new_limited(2))),
        Instr::ReplHost => erase(s.replication(Replication::Host)),
        Instr::ReplUnl => erase(s.replication(Replication::Unlimited)),
        Instr::GbSum => erase(
            s.group_by(|x: &i64| x % 3)
                .fold(0i64, |a, x| *a += x)
                .unkey()
                .map(|(k, v)| enc_kv(k, v)),
        ),
        Instr::GbReduceMax => erase(
            s.group_by(|x: &i64| x % 2)
                .reduce(|a, b| {
                    if b > *a {
                        *a = b
                    }
                })
                .unkey()
                .map(|(k, v)| enc_kv(k, v)),
        ),
        Instr::GbFoldAssoc => erase(
            s.group_by_fold(|x: &i64| x % 3, 0i64, |a, x| *a += x, |a, x| *a += x)
                .unkey()
                .map(|(k, v)| enc_kv(k, v)),
        ),
        Instr::GbReduceAssoc => erase(
            s.group_by_reduce(
                |x: &i64| x % 2,
                |a, b| {
                    if b > *a {
                        *a = b
                    }
                },
            )
            .unkey()
            .map(|(k, v)| enc_kv(k, v)),
        ),
        Instr::Fold => erase(s.fold(0i64, |a, x| *a += x)),
        Instr::FoldAssoc => erase(s.fold_assoc(0i64, |a, x| *a += x, |a, x| *a += x)),
        Instr::Reduce => erase(s.reduce(|a, b| a + b)),
        Instr::ReduceAssoc => erase(s.reduce_assoc(|a, b| a + b)),
        Instr::BcastMax => erase(
            s.broadcast()
                .group_by(|x: &i64| x % 2)
                .reduce(|a, b| {
                    if b > *a {
                        *a = b
                    }
                })
                .unkey()
                .map(|(k, v)| enc_kv(k, v)),
        ),
        Instr::KeyedMap => erase(s.key_by(|x: &i64| x % 2).map(|(_, v)| v + 1).drop_key()),
        Instr::PanicAt(r, k) => erase(crate::kit::panic_at(s, *r, *k)),
        Instr::CountWin => erase(
            s.group_by(|x: &i64| x % 2)
                .window(renoir::operator::window::CountWindow::tumbling(2))
                .sum::<i64>()
                .unkey()
                .map(|(k, v)| enc_kv(k, v)),
        ),
        Instr::RichMap => erase(s.rich_map(|x| x + 2)),
        Instr::RichFilterMap => erase(s.rich_filter_map(f_rfm)),
        Instr::RichFlatMap => erase(s.rich_flat_map(f_rflat)),
        Instr::Flatten => erase(s.map(|x| vec![x, x + 5]).flatten()),
        Instr::Inspect => erase(s.inspect(|_| {})),
        Instr::MapMemo => erase(s.map_memo(f_memo, 2)),
        Instr::MapMemoBy => erase(s.map_memo_by(|x| (x % 4) * 7, |x| x % 4, 2)),
        Instr::UniqueAssoc => erase(s.map(|x| x % 3).unique_assoc()),
        Instr::KeyedPipe => erase(
            s.key_by(|x: &i64| x % 2)
                .filter(|(_, v)| v % 3 != 0)
                .filter_map(|(_, v)| Some(v + 1))
                .flat_map(|(_, v)| vec![v, v + 20])
                .inspect(|_| {})
                .drop_key(),
        ),
        Instr::KeyedRich => erase(
            s.key_by(|x: &i64| x % 2)
                .rich_filter_map(|(_, v)| f_rfm(v))
                .rich_flat_map(|(_, v)| f_rflat(v))
                .map(|(_, v)| vec![v, v + 5])
                .flatten()
                .drop_key()
                .map_memo(f_memo, 2),
        ),
        Instr::KeyedShuffle => erase(s.key_by(|x: &i64| x % 2).shuffle().map(|(_, v)| v)),
        Instr::RepartBy => erase(s.repartition_by(Replication::Unlimited, |x: &i64| x.rem_euclid(5) as u64)),
        Instr::Stamp => erase(s.add_timestamps(|x| *x, |_, _| None).drop_timestamps()),
        Instr::StampShuffle => erase(s.add_timestamps(|x| *x, |_, _| None).shuffle().drop_timestamps()),
        Instr::KeyedStamp => erase(
            s.key_by(|x: &i64| x % 2)
                .add_timestamps(|(_, v)| *v, |_, _| None)
                .drop_timestamps()
                .drop_key(),
        ),
        Instr::WinAllCount => erase(
            s.window_all(renoir::operator::window::CountWindow::tumbling(2))
                .count()
                .drop_key()
                .map(|c| c as i64),
        ),
        Instr::Replay(rounds, body) => {
            let body = body.clone();
            let rounds = *rounds;
            erase(s.replay(
                rounds,
                0i64,
                move |st, _state| {
                    let mut cur = erase(st);
                    for i in &body {
                        cur = unary(cur, i);
                    }
                    cur
                },
                |delta: &mut i64, x: i64| *delta += x,
                |state: &mut i64, delta: i64| *state += delta,
                |_state: &mut i64| true,
            ))
        }
        Instr::Iterate(rounds, body) => {
            let body = body.clone();
            let rounds = *rounds;
            let (state, out) = s.iterate(
                rounds,
                0i64,
                move |st, _state| {
                    let mut cur = erase(st);
                    for i in &body {
                        cur = unary(cur, i);
                    }
                    cur
                },
                |delta: &mut i64, x: i64| *delta += x,
                |state: &mut i64, delta: i64| *state += delta,
                |_state: &mut i64| true,
            );
            // the state stream must be consumed too
            state.for_each(|_| {});
            erase(out)
        }
        other => panic!("not a unary instruction: {:?}", other),
    }
}

fn join(a: DS<i64>, b: DS<i64>, kind: u8, ship: u8, local: u8) -> DS<i64> {
    let k1 = |x: &i64| x % 3;
    let k2 = |x: &i64| x % 3;
    macro_rules! finish {
        ($j:expr) => {
            match kind {
                0 => erase(
                    $j.inner()
                        .unkey()
                        .map(|(_, (l, r))| enc_pair(Some(l), Some(r))),
                ),
                1 => erase($j.left().unkey().map(|(_, (l, r))| enc_pair(Some(l), r))),
                _ => erase($j.outer().unkey().map(|(_, (l, r))| enc_pair(l, r))),
            }
        };
    }
    macro_rules! finish_bc {
        ($j:expr) => {
            match kind {
                0 => erase($j.inner().map(|(_, (l, r))| enc_pair(Some(l), Some(r)))),
                _ => erase($j.left().map(|(_, (l, r))| enc_pair(Some(l), r))),
            }
        };
    }
    match (ship, local) {
        // the one-call forms of the API
        (2, _) => match kind {
            0 => erase(a.join(b, k1, k2).unkey().map(|(_, (l, r))| enc_pair(Some(l), Some(r)))),
            1 => erase(a.left_join(b, k1, k2).unkey().map(|(_, (l, r))| enc_pair(Some(l), r))),
            _ => erase(a.outer_join(b, k1, k2).unkey().map(|(_, (l, r))| enc_pair(l, r))),
        },
        (0, 0) => finish!(a.join_with(b, k1, k2).ship_hash().local_hash()),
        (0, _) => finish!(a.join_with(b, k1, k2).ship_hash().local_sort_merge()),
        (_, 0) => finish_bc!(a.join_with(b, k1, k2).ship_broadcast_right().local_hash()),
        (_, _) => finish_bc!(a
            .join_with(b, k1, k2)
            .ship_broadcast_right()
            .local_sort_merge()),
    }
}

/// Handle on what a sink published.
pub enum OutH {
    Vec(StreamOutput<Vec<i64>>),
    Count(StreamOutput<usize>),
    Deque(StreamOutput<std::collections::VecDeque<i64>>),
    Chan(renoir::verif::flume_shim::Receiver<i64>),
    Shared(std::sync::Arc<std::sync::Mutex<Vec<i64>>>),
}

impl OutH {
    pub fn get(self) -> Option<Vec<i64>> {
        match self {
            OutH::Vec(o) => o.get(),
            OutH::Count(o) => o.get().map(|n| vec![n as i64]),
            OutH::Deque(o) => o.get().map(|d| d.into_iter().collect()),
            OutH::Chan(rx) => {
                let mut v = vec![];
                while let Ok(x) = rx.try_recv() {
                    v.push(x);
                }
                Some(v)
            }
            OutH::Shared(m) => Some(m.lock().unwrap().clone()),
        }
    }
}

fn sink(s: DS<i64>, i: &Instr) -> OutH {
    match i {
        Instr::Sink => OutH::Vec(s.collect_vec()),
        Instr::SinkCount => OutH::Count(s.collect_count()),
        Instr::SinkVecAll => OutH::Vec(s.collect_vec_all()),
        Instr::SinkCollect => OutH::Deque(s.collect()),
        Instr::SinkCollectAll => OutH::Deque(s.collect_all()),
        Instr::SinkChan => OutH::Chan(s.collect_channel()),
        Instr::SinkChanPar => OutH::Chan(s.collect_channel_parallel()),
        Instr::SinkForEach => {
            let m = std::sync::Arc::new(std::sync::Mutex::new(vec![]));
            let m2 = m.clone();
            s.for_each(move |x| m2.lock().unwrap().push(x));
            OutH::Shared(m)
        }
        other => panic!("not a sink: {:?}", other),
    }
}

/// Build the job for `prog` over the given source stream; returns one output handle per sink, in
/// program order (streams left on the stack at the end are sunk too).
pub fn build(src: DS<i64>, prog: &Program) -> Vec<OutH> {
    build_inner(src, prog, false)
}

/// Like `build`, with a probe (id = instruction index) on every stream an instruction produces.
pub fn build_probed(src: DS<i64>, prog: &Program) -> Vec<OutH> {
    build_inner(src, prog, true)
}

fn build_inner(src: DS<i64>, prog: &Program, probes: bool) -> Vec<OutH> {
    let mut stack: Vec<DS<i64>> = vec![if probes { erase(probe(src, 1000)) } else { src }];
    let mut pc = 0u32;
    let mut tag = |s: DS<i64>, pc: u32| -> DS<i64> {
        if probes {
            erase(probe(s, pc))
        } else {
            s
        }
    };
    let mut outs = vec![];
    for i in prog {
        pc += 1;
        match i {
            Instr::Dup => {
                let s = stack.pop().unwrap();
                let mut v = s.split(2);
                let b = v.pop().unwrap();
                let a = v.pop().unwrap();
                stack.push(tag(erase(a), pc * 10));
                stack.push(tag(erase(b), pc * 10 + 1));
            }
            Instr::Swap => {
                let b = stack.pop().unwrap();
                let a = stack.pop().unwrap();
                stack.push(b);
                stack.push(a);
            }
            Instr::Merge => {
                let b = stack.pop().unwrap();
                let a = stack.pop().unwrap();
                stack.push(tag(erase(a.merge(b)), pc * 10));
            }
            Instr::Join(kind, ship, local) => {
                let b = stack.pop().unwrap();
                let a = stack.pop().unwrap();
                stack.push(tag(join(a, b, *kind, *ship, *local), pc * 10));
            }
            Instr::KeyedMerge => {
                let b = stack.pop().unwrap();
                let a = stack.pop().unwrap();
                let m = a.key_by(|x: &i64| x % 2).merge(b.key_by(|x: &i64| x % 2)).drop_key();
                stack.push(tag(erase(m), pc * 10));
            }
            k if k.is_sink() => {
                let s = stack.pop().unwrap();
                outs.push(sink(s, k));
            }
            u => {
                let s = stack.pop().unwrap();
                stack.push(tag(unary(s, u), pc * 10));
            }
        }
    }
    while let Some(s) = stack.pop() {
        outs.push(OutH::Vec(s.collect_vec()));
    }
    outs
}

// ---------------------------------------------------------------------------------------------
// reference semantics: multisets as sorted vectors

fn keyed_agg(v: &[i64], m: i64, f: impl Fn(i64, i64) -> i64) -> Vec<i64> {
    let mut acc: std::collections::BTreeMap<i64, i64> = Default::default();
    for &x in v {
        let k = x % m;
        acc.entry(k).and_modify(|a| *a = f(*a, x)).or_insert(x);
    }
    acc.into_iter().map(|(k, a)| enc_kv(k, a)).collect()
}

fn ref_unary(v: Vec<i64>, i: &Instr) -> Vec<i64> {
    match i {
        Instr::Map => v.into_iter().map(f_map).collect(),
        Instr::Filter => v.into_iter().filter(f_filter).collect(),
        Instr::FlatMap => v.into_iter().flat_map(f_flat).collect(),
        Instr::Shuffle | Instr::ReplOne | Instr::ReplLim2 | Instr::ReplHost | Instr::ReplUnl | Instr::PanicAt(..) => v,
        Instr::GbSum | Instr::GbFoldAssoc => keyed_agg(&v, 3, |a, b| a + b),
        Instr::GbReduceMax | Instr::GbReduceAssoc | Instr::BcastMax => keyed_agg(&v, 2, |a, b| a.max(b)),
        Instr::Fold | Instr::FoldAssoc | Instr::Reduce | Instr::ReduceAssoc => {
            if v.is_empty() {
                vec![]
            } else {
                vec![v.iter().sum()]
            }
        }
        Instr::KeyedMap => v.into_iter().map(|x| x + 1).collect(),
        Instr::RichMap => v.into_iter().map(|x| x + 2).collect(),
        Instr::RichFilterMap => v.into_iter().filter_map(f_rfm).collect(),
        Instr::RichFlatMap => v.into_iter().flat_map(f_rflat).collect(),
        Instr::Flatten => v.into_iter().flat_map(|x| vec![x, x + 5]).collect(),
        Instr::Inspect | Instr::KeyedShuffle | Instr::RepartBy | Instr::Stamp | Instr::StampShuffle | Instr::KeyedStamp => v,
        Instr::MapMemo => v.into_iter().map(f_memo).collect(),
        Instr::MapMemoBy => v.into_iter().map(|x| (x % 4) * 7).collect(),
        Instr::UniqueAssoc => {
            let set: std::collections::BTreeSet<i64> = v.into_iter().map(|x| x % 3).collect();
            set.into_iter().collect()
        }
        Instr::KeyedPipe => v.into_iter().flat_map(f_keyed_pipe).collect(),
        Instr::KeyedRich => v
            .into_iter()
            .filter_map(f_rfm)
            .flat_map(f_rflat)
            .flat_map(|x| vec![x, x + 5])
            .map(f_memo)
            .collect(),
        Instr::WinAllCount => vec![2; v.len() / 2],
        Instr::CountWin => {
            let mut out = vec![];
            for k in 0..2 {
                let xs: Vec<i64> = v.iter().copied().filter(|x| x.rem_euclid(2) == k).collect();
                for g in xs.chunks(2) {
                    if g.len() == 2 {
                        out.push(enc_kv(k, g[0] + g[1]));
                    }
                }
            }
            out
        }
        Instr::Replay(rounds, body) => {
            let mut state = 0i64;
            for _ in 0..*rounds {
                let mut cur = v.clone();
                for b in body {
                    cur = ref_unary(cur, b);
                }
                state += cur.iter().sum::<i64>();
            }
            vec![state]
        }
        Instr::Iterate(rounds, body) => {
            let mut cur = v;
            for _ in 0..*rounds {
                for b in body {
                    cur = ref_unary(cur, b);
                }
            }
            cur
        }
        other => panic!("not unary: {:?}", other),
    }
}

fn ref_join(a: &[i64], b: &[i64], kind: u8) -> Vec<i64> {
    let mut out = vec![];
    for &l in a {
        let mut matched = false;
        for &r in b {
            if l % 3 == r % 3 {
                matched = true;
                out.push(enc_pair(Some(l), Some(r)));
            }
        }
        if !matched && kind >= 1 {
            out.push(enc_pair(Some(l), None));
        }
    }
    if kind == 2 {
        for &r in b {
            if !a.iter().any(|l| l % 3 == r % 3) {
                out.push(enc_pair(None, Some(r)));
            }
        }
    }
    out
}

/// Expected multiset (sorted) of every sink, in the order `build` returns them.
pub fn reference(input: &[i64], prog: &Program) -> Vec<Vec<i64>> {
    let mut stack: Vec<Vec<i64>> = vec![input.to_vec()];
    let mut outs = vec![];
    for i in prog {
        match i {
            Instr::Dup => {
                let s = stack.pop().unwrap();
                stack.push(s.clone());
                stack.push(s);
            }
            Instr::Swap => {
                let b = stack.pop().unwrap();
                let a = stack.pop().unwrap();
                stack.push(b);
                stack.push(a);
            }
            Instr::Merge | Instr::KeyedMerge => {
                let b = stack.pop().unwrap();
                let mut a = stack.pop().unwrap();
                a.extend(b);
                stack.push(a);
            }
            Instr::Join(kind, ship, _) => {
                let b = stack.pop().unwrap();
                let a = stack.pop().unwrap();
                // broadcast shipping supports inner and left only (builder maps outer to left)
                let kind = if *ship == 1 && *kind == 2 { 1 } else { *kind };
                stack.push(ref_join(&a, &b, kind));
            }
            Instr::SinkCount => {
                let s = stack.pop().unwrap();
                outs.push(vec![s.len() as i64]);
            }
            k if k.is_sink() => {
                let mut s = stack.pop().unwrap();
                s.sort();
                outs.push(s);
            }
            u => {
                let s = stack.pop().unwrap();
                stack.push(ref_unary(s, u));
            }
        }
    }
    while let Some(mut s) = stack.pop() {
        s.sort();
        outs.push(s);
    }
    outs
}

/// Static replication attribute of a stream (what the scheduler will use for its block).
#[derive(Clone, Copy, Debug, PartialEq, Eq)]
pub enum Rep {
    One,
    Lim2,
    Host,
    Unl,
}

/// Replication attribute after a unary instruction, or None if the public API rejects the
/// combination (loops need an unlimited block).
fn rep_unary(i: &Instr, r: Rep) -> Option<Rep> {
    Some(match i {
        Instr::Map | Instr::Filter | Instr::FlatMap | Instr::KeyedMap | Instr::PanicAt(..) => r,
        Instr::RichMap
        | Instr::RichFilterMap
        | Instr::RichFlatMap
        | Instr::Flatten
        | Instr::Inspect
        | Instr::MapMemo
        | Instr::MapMemoBy
        | Instr::KeyedPipe
        | Instr::KeyedRich
        | Instr::Stamp
        | Instr::KeyedStamp => r,
        Instr::UniqueAssoc | Instr::KeyedShuffle | Instr::RepartBy | Instr::StampShuffle => Rep::Unl,
        Instr::WinAllCount => Rep::One,
        Instr::Shuffle
        | Instr::GbSum
        | Instr::GbReduceMax
        | Instr::GbFoldAssoc
        | Instr::GbReduceAssoc
        | Instr::CountWin
        | Instr::BcastMax => Rep::Unl,
        Instr::ReplOne | Instr::Fold | Instr::FoldAssoc | Instr::Reduce | Instr::ReduceAssoc => Rep::One,
        Instr::ReplLim2 => Rep::Lim2,
        Instr::ReplHost => Rep::Host,
        Instr::ReplUnl => Rep::Unl,
        Instr::Replay(_, body) => {
            if r != Rep::Unl {
                return None;
            }
            let mut cur = Rep::Unl;
            for b in body {
                cur = rep_unary(b, cur)?;
            }
            // the state stream leaves the single-replica leader through a shuffle
            Rep::Unl
        }
        Instr::Iterate(_, body) => {
            if r != Rep::Unl {
                return None;
            }
            let mut cur = Rep::Unl;
            for b in body {
                cur = rep_unary(b, cur)?;
            }
            if cur != Rep::Unl {
                return None;
            }
            Rep::Unl
        }
        _ => return None,
    })
}

/// Is the program well formed for a source with replication `src` (stack never underflows, the
/// API's own preconditions hold)? Returns the number of streams left on the stack.
pub fn well_formed(prog: &Program, src: Rep) -> Option<usize> {
    let mut st = vec![src];
    for i in prog {
        match i {
            Instr::Dup => {
                let a = *st.last()?;
                st.push(a);
            }
            Instr::Swap => {
                let n = st.len();
                if n < 2 {
                    return None;
                }
                st.swap(n - 1, n - 2);
            }
            Instr::Merge | Instr::KeyedMerge => {
                let b = st.pop()?;
                let a = st.pop()?;
                // a Y connection without shuffle requires equal parallelism
                if a != b {
                    return None;
                }
                st.push(a);
            }
            Instr::Join(_, ship, _) => {
                let _b = st.pop()?;
                let a = st.pop()?;
                if *ship == 0 || *ship == 2 {
                    st.push(Rep::Unl);
                } else {
                    st.push(a);
                }
            }
            k if k.is_sink() => {
                st.pop()?;
            }
            u => {
                let a = st.pop()?;
                st.push(rep_unary(u, a)?);
            }
        }
    }
    Some(st.len())
}

/// All well-formed programs of exactly `len` instructions over `alphabet`.
pub fn enumerate(alphabet: &[Instr], len: usize, src: Rep) -> Vec<Program> {
    let mut cur: Vec<Program> = vec![vec![]];
    for _ in 0..len {
        let mut next = vec![];
        for p in &cur {
            for i in alphabet {
                let mut q = p.clone();
                q.push(i.clone());
                if well_formed(&q, src).is_some() {
                    next.push(q);
                }
            }
        }
        cur = next;
    }
    cur
}
