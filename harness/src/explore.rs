//! Deviation-bounded depth-first exploration of the choice tree (stateless, replay based).
//!
//! An execution is the sequence of its choice points. Index 0 is the default answer everywhere;
//! any other answer at a point whose kind is not free costs one deviation. All executions whose
//! total cost is within the bound are run, each exactly once: the children of an execution are
//! the prefixes `choices[..i] ++ [alt]` for every point `i` beyond the prefix it was started from.
//!
//! One process explores single-threaded (the coroutine stacks make multi-threaded exploration
//! contend on the address-space lock); a scenario is split over processes by dealing the
//! first-level subtrees round-robin to `k` shards.
use std::collections::hash_map::DefaultHasher;
use std::collections::HashSet;
use std::hash::{Hash, Hasher};
use std::sync::Arc;
use std::time::Instant;

use crate::rt::{run_many, run_once, EnvParams, ExecResult, Kind, Order, Point, Request, Status};

pub type Body = crate::rt::Body;
/// (prefix, cost so far, sleep set at the branching node in unbounded mode)
type Item = (Vec<Point>, usize, Option<Vec<(usize, renoir::verif::Op)>>);

#[derive(Clone, Debug)]
pub struct Fail {
    /// stable signature of the failing case (used to match known findings)
    pub sig: String,
    pub msg: String,
}

impl Fail {
    pub fn new(sig: impl Into<String>, msg: impl Into<String>) -> Fail {
        Fail {
            sig: sig.into(),
            msg: msg.into(),
        }
    }
}

/// Evaluate one finished execution: `Ok(observation hash)` or a failure.
pub type Check = Arc<dyn Fn(&ExecResult) -> Result<u64, Fail> + Send + Sync>;

#[derive(Clone)]
pub struct Scenario {
    pub name: String,
    /// human readable description of program / input / configuration
    pub descr: String,
    pub params: EnvParams,
    pub body: Body,
    pub check: Check,
    /// deviation bound
    pub bound: usize,
    pub orders: Vec<Order>,
    /// cap on executions per order and shard (0 = none)
    pub max_execs: usize,
    /// number of processes this scenario should be split over
    pub shards: usize,
    /// whether the input is "non-trivial" by the property's stated rule
    pub nontrivial: bool,
    /// unbounded exploration with sleep sets instead of the deviation bound
    pub unbounded: bool,
    /// the body enumerates a family of cases itself (E2 loop scenario)
    pub loop_body: bool,
    /// reachability obligations: (signature, what) and a predicate on one execution; if the
    /// scenario is explored completely and no execution satisfies the predicate, that is a
    /// violation (e.g. "the right input of a two-input block can be served first")
    pub sometimes: Vec<Sometimes>,
}

pub type Sometimes = (String, String, std::sync::Arc<dyn Fn(&ExecResult) -> bool + Send + Sync>);

#[derive(Clone, Debug, serde::Serialize, serde::Deserialize)]
pub struct Violation {
    pub scenario: String,
    pub order: String,
    pub choices: Vec<Point>,
    pub sig: String,
    pub message: String,
}

#[derive(Clone, Debug, Default, serde::Serialize, serde::Deserialize)]
pub struct ScenarioReport {
    pub name: String,
    pub descr: String,
    pub bound: usize,
    pub orders: usize,
    pub executions: usize,
    pub steps: usize,
    pub choice_points: usize,
    pub max_points: usize,
    /// most scheduling steps taken by an execution that terminated
    #[serde(default)]
    pub max_steps_done: usize,
    /// written by the watchdog of a worker that then exits: an execution never came back
    #[serde(default)]
    pub hang: bool,
    pub obs: Vec<u64>,
    pub obs_truncated: bool,
    pub capped: bool,
    pub machinery_errors: Vec<String>,
    pub violations: Vec<Violation>,
    pub sample: Option<String>,
    pub wall_s: f64,
    pub nontrivial: bool,
    /// cases enumerated inside executions (E2 loop scenarios) and how many were non-trivial
    pub cases: usize,
    pub nontrivial_cases: usize,
    /// unbounded mode: executions whose remaining choices were all asleep (pruned as redundant)
    pub sleep_blocked: usize,
    pub unbounded: bool,
}

pub fn hash_of<T: Hash>(t: &T) -> u64 {
    let mut h = DefaultHasher::new();
    t.hash(&mut h);
    h.finish()
}

fn cost_of(p: &Point, free: &[Kind]) -> usize {
    (p.c != 0 && !free.contains(&p.k)) as usize
}

pub fn order_name(o: Order) -> &'static str {
    match o {
        Order::RunAsc => "run-asc",
        Order::RunDesc => "run-desc",
        Order::RoundRobin => "round-robin",
    }
}

pub fn parse_order(s: &str) -> Order {
    match s {
        "run-desc" => Order::RunDesc,
        "round-robin" => Order::RoundRobin,
        _ => Order::RunAsc,
    }
}

pub fn describe(trace: &[Point]) -> String {
    let devs: Vec<String> = trace
        .iter()
        .enumerate()
        .filter(|(_, p)| p.c != 0)
        .map(|(i, p)| format!("@{}:{:?}={}/{}", i, p.k, p.c, p.n))
        .collect();
    format!("{} choice points, non-default [{}]", trace.len(), devs.join(" "))
}

const OBS_CAP: usize = 200_000;
const MAX_VIOLATIONS: usize = 8;

struct Acc {
    sometimes_hit: Vec<bool>,
    s: Scenario,
    rep: ScenarioReport,
    obs: HashSet<u64>,
    deadline: Option<Instant>,
    stop: bool,
}

impl Acc {
    /// Record one finished execution that was started from a prefix of length `plen` and cost
    /// `cost`; return its children (prefix, cost).
    fn record(&mut self, r: ExecResult, plen: usize, cost: usize, order: Order) -> Vec<Item> {
        let s = self.s.clone();
        self.rep.executions += 1;
        self.rep.steps += r.steps;
        self.rep.choice_points += r.trace.len().saturating_sub(plen);
        self.rep.max_points = self.rep.max_points.max(r.trace.len());
        for e in &r.log {
            if let crate::rt::Ev::Note("cases", v) = e {
                self.rep.cases += v[0] as usize;
                self.rep.nontrivial_cases += v[1] as usize;
            }
            if let crate::rt::Ev::Note("capped", _) = e {
                self.rep.capped = true;
            }
        }
        let machinery = match &r.status {
            Status::Divergence(d) => Some(d.clone()),
            Status::Engine(e) => Some(format!("engine failure: {e}")),
            _ => None,
        };
        // a spinning task is a verdict for every job-level property: the job never ends. So is a
        // job over a handful of elements that is still busy after the step cap (200 000
        // scheduling points; terminating executions of these jobs need a few thousand at most):
        // its tasks keep exchanging messages or re-arming timers without ever finishing.
        let never_ends = match &r.status {
            Status::Livelock(t) => Some(("livelock", t.clone())),
            Status::StepCap => Some((
                "nontermination",
                format!(
                    "still running after {} scheduling steps (the longest terminating execution of this scenario so far took {})",
                    r.steps, self.rep.max_steps_done
                ),
            )),
            _ => None,
        };
        if r.status == Status::Done {
            self.rep.max_steps_done = self.rep.max_steps_done.max(r.steps);
        }
        if let Some((nsig, t)) = &never_ends {
            if !self.rep.violations.iter().any(|v| v.sig == *nsig) {
                self.rep.violations.push(Violation {
                    scenario: s.name.clone(),
                    order: order_name(order).to_string(),
                    // default choices (0) at the end need not be recorded: a replay continues
                    // with the defaults after its prefix
                    choices: {
                        let mut t = r.trace.clone();
                        while matches!(t.last(), Some(p) if p.c == 0) {
                            t.pop();
                        }
                        t
                    },
                    sig: nsig.to_string(),
                    message: format!("{}: the job never terminates - {t}", s.descr),
                });
            }
            // every such execution runs up to the step cap: one verdict per scenario is enough
            self.rep.capped = true;
            self.stop = true;
            return vec![];
        }
        if let Some(m) = machinery {
            self.rep.machinery_errors.push(format!(
                "{} [{}] {}: {}",
                s.name,
                order_name(order),
                describe(&r.trace),
                m
            ));
            self.stop = true;
            return vec![];
        }
        match (s.check)(&r) {
            Ok(h) => {
                for (i, (_, _, pred)) in s.sometimes.iter().enumerate() {
                    if !self.sometimes_hit[i] && pred(&r) {
                        self.sometimes_hit[i] = true;
                    }
                }
                if self.obs.len() < OBS_CAP {
                    self.obs.insert(h);
                } else {
                    self.rep.obs_truncated = true;
                }
                if self.rep.sample.is_none() {
                    self.rep.sample = Some(describe(&r.trace));
                }
            }
            Err(f) => {
                let mut all = vec![f];
                // loop scenarios may log failures of several distinct signatures
                for x in crate::e2::logged_fails(&r.log) {
                    if !all.iter().any(|y| y.sig == x.sig) {
                        all.push(x);
                    }
                }
                for f in all {
                    if self.rep.violations.len() < MAX_VIOLATIONS
                        && !self.rep.violations.iter().any(|v| v.sig == f.sig)
                    {
                        self.rep.violations.push(Violation {
                            scenario: s.name.clone(),
                            order: order_name(order).to_string(),
                            choices: r.trace.clone(),
                            sig: f.sig,
                            message: f.msg,
                        });
                    }
                }
            }
        }
        let mut kids: Vec<Item> = vec![];
        if s.unbounded {
            if r.sleep_blocked_at.is_some() {
                self.rep.sleep_blocked += 1;
            }
            let limit = r.sleep_blocked_at.unwrap_or(r.trace.len()).min(r.trace.len());
            for i in plen..limit {
                let p = r.trace[i];
                let node = r.nodes.get(i).cloned().unwrap_or_default();
                if p.k == Kind::Task && node.enabled.len() == p.n as usize {
                    // siblings explored before a task stay asleep while it is explored
                    let mut done = vec![node.enabled[p.c as usize]];
                    for alt in 0..p.n {
                        if alt == p.c {
                            continue;
                        }
                        let (t, op) = node.enabled[alt as usize];
                        if node.sleep.iter().any(|(x, _)| *x == t) {
                            continue;
                        }
                        let mut pre: Vec<Point> = r.trace[..i].to_vec();
                        pre.push(Point { k: p.k, n: p.n, c: alt });
                        let mut sl = node.sleep.clone();
                        sl.extend(done.iter().copied());
                        kids.push((pre, 0, Some(sl)));
                        done.push((t, op));
                    }
                } else {
                    // data choices are never pruned
                    for alt in 0..p.n {
                        if alt == p.c {
                            continue;
                        }
                        let mut pre: Vec<Point> = r.trace[..i].to_vec();
                        pre.push(Point { k: p.k, n: p.n, c: alt });
                        kids.push((pre, 0, Some(node.sleep.clone())));
                    }
                }
            }
        } else {
            for i in plen..r.trace.len() {
                let p = r.trace[i];
                for alt in 1..p.n {
                    let q = Point {
                        k: p.k,
                        n: p.n,
                        c: alt,
                    };
                    let c2 = cost + cost_of(&q, &s.params.free_kinds);
                    if c2 <= s.bound {
                        let mut pre: Vec<Point> = r.trace[..i].to_vec();
                        pre.push(q);
                        kids.push((pre, c2, None));
                    }
                }
            }
        }
        if s.max_execs > 0 && self.rep.executions >= s.max_execs {
            self.rep.capped = true;
            self.stop = true;
        }
        if let Some(dl) = self.deadline {
            if Instant::now() > dl {
                self.rep.capped = true;
                self.stop = true;
            }
        }
        kids
    }
}

/// Explore shard `shard` of `shards` of a scenario (all its canonical orders).
pub fn explore(s: &Scenario, shard: usize, shards: usize, deadline: Option<Instant>) -> ScenarioReport {
    let t0 = Instant::now();
    crate::rt::set_deadline(deadline);
    crate::rt::watchdog::scenario(&s.name, &s.descr, !s.loop_body);
    let acc = std::rc::Rc::new(std::cell::RefCell::new(Acc {
        s: s.clone(),
        rep: ScenarioReport {
            name: s.name.clone(),
            descr: s.descr.clone(),
            bound: s.bound,
            orders: s.orders.len(),
            nontrivial: s.nontrivial,
            unbounded: s.unbounded,
            ..Default::default()
        },
        obs: HashSet::new(),
        deadline,
        stop: false,
        sometimes_hit: vec![false; s.sometimes.len()],
    }));
    // determinism: the default execution must reproduce itself (enumerations inside one
    // execution make no hidden choice and are not run three times)
    if shard == 0 && !s.name.contains("#loop") && !s.loop_body {
        let a = run_once(vec![], s.orders[0], s.params.clone(), s.body.clone());
        let b = run_once(vec![], s.orders[0], s.params.clone(), s.body.clone());
        if a.trace != b.trace || a.log != b.log || a.status != b.status {
            let mut acc = acc.borrow_mut();
            acc.rep.machinery_errors.push(format!(
                "{}: default execution is not deterministic (uncontrolled nondeterminism): {} vs {} points, status {:?} vs {:?}",
                s.name,
                a.trace.len(),
                b.trace.len(),
                a.status,
                b.status
            ));
            return acc.rep.clone();
        }
    }
    // the driver: a DFS over (order, prefix) work items
    struct Dfs {
        orders: Vec<Order>,
        next_order: usize,
        cur_order: Order,
        stack: Vec<Item>,
        /// (prefix length, cost, is root) of the execution in flight
        inflight: Option<(usize, usize, bool)>,
    }
    let dfs = std::rc::Rc::new(std::cell::RefCell::new(Dfs {
        orders: s.orders.clone(),
        next_order: 0,
        cur_order: s.orders[0],
        stack: vec![],
        inflight: None,
    }));
    let acc2 = acc.clone();
    let shards = shards.max(1);
    run_many(Box::new(move |prev| {
        let mut d = dfs.borrow_mut();
        let mut acc = acc2.borrow_mut();
        if let Some(r) = prev {
            let (plen, cost, root) = d.inflight.take().unwrap();
            let order = d.cur_order;
            if root && shard != 0 {
                // the root execution is run by every shard (to derive the first level) but is
                // counted and judged by shard 0 only
                let before = (
                    acc.rep.executions,
                    acc.rep.steps,
                    acc.rep.choice_points,
                    acc.rep.violations.len(),
                    acc.rep.max_points,
                );
                let kids = acc.record(r, plen, cost, order);
                acc.rep.executions = before.0;
                acc.rep.steps = before.1;
                acc.rep.choice_points = before.2;
                acc.rep.violations.truncate(before.3);
                acc.rep.max_points = before.4;
                d.stack = kids
                    .into_iter()
                    .enumerate()
                    .filter(|(i, _)| i % shards == shard)
                    .map(|(_, k)| k)
                    .collect();
            } else {
                let kids = acc.record(r, plen, cost, order);
                if root {
                    d.stack = kids
                        .into_iter()
                        .enumerate()
                        .filter(|(i, _)| i % shards == shard)
                        .map(|(_, k)| k)
                        .collect();
                } else {
                    d.stack.extend(kids);
                }
            }
        }
        if acc.stop {
            return None;
        }
        if let Some((prefix, cost, sleep)) = d.stack.pop() {
            d.inflight = Some((prefix.len(), cost, false));
            let order = d.cur_order;
            return Some(Request {
                prefix,
                order,
                params: acc.s.params.clone(),
                body: acc.s.body.clone(),
                sleep,
            });
        }
        if d.next_order < d.orders.len() {
            d.cur_order = d.orders[d.next_order];
            d.next_order += 1;
            d.inflight = Some((0, 0, true));
            let order = d.cur_order;
            return Some(Request {
                prefix: vec![],
                order,
                params: acc.s.params.clone(),
                body: acc.s.body.clone(),
                sleep: if acc.s.unbounded { Some(vec![]) } else { None },
            });
        }
        None
    }));
    let mut acc = std::rc::Rc::try_unwrap(acc)
        .ok()
        .expect("explorer state still shared")
        .into_inner();
    // confirm violations by replaying them twice
    let mut confirmed = vec![];
    // (replays run to their end: the exploration's wall-clock deadline does not cut them. An
    // enumeration inside one execution makes no hidden choice - single task, no scheduler or
    // environment answer - and replaying it means enumerating everything again, twice: when that
    // took more than a few seconds, or the budget is used up, its failures are taken as they are.)
    let late = deadline.map(|d| Instant::now() > d).unwrap_or(false);
    crate::rt::set_deadline(None);
    for v in std::mem::take(&mut acc.rep.violations) {
        if s.loop_body && (late || t0.elapsed().as_secs() >= 5) {
            confirmed.push(v);
            continue;
        }
        let o = parse_order(&v.order);
        let r1 = run_once(v.choices.clone(), o, s.params.clone(), s.body.clone());
        let r2 = run_once(v.choices.clone(), o, s.params.clone(), s.body.clone());
        let c1 = (s.check)(&r1);
        let c2 = (s.check)(&r2);
        if c1.is_err() && c2.is_err() && r1.log == r2.log {
            confirmed.push(v);
        } else {
            acc.rep.machinery_errors.push(format!(
                "{}: violation did not reproduce on replay ({})",
                s.name, v.message
            ));
        }
    }
    // reachability obligations, judged only on a complete exploration by a single process
    if shards == 1 && !acc.rep.capped && !acc.stop && acc.rep.machinery_errors.is_empty() && confirmed.is_empty() {
        for (i, (sig, what, _)) in s.sometimes.iter().enumerate() {
            if !acc.sometimes_hit[i] {
                confirmed.push(Violation {
                    scenario: s.name.clone(),
                    order: order_name(s.orders[0]).to_string(),
                    choices: vec![],
                    sig: sig.clone(),
                    message: format!("{}: in none of the {} executions explored (every answer of every choice within the bound) {what}", s.descr, acc.rep.executions),
                });
            }
        }
    }
    acc.rep.violations = confirmed;
    acc.rep.obs = acc.obs.into_iter().collect();
    acc.rep.wall_s = t0.elapsed().as_secs_f64();
    acc.rep
}
