#!/usr/bin/env python3
# keep_seed.py <seed dir> <property> <needs...> -- <caught_by...> : copy a confirmed seeded change under /verif/seeded
import sys, json, shutil, os
d=sys.argv[1]; prop=sys.argv[2]
rest=sys.argv[3:]
i=rest.index('--')
needs=' '.join(rest[:i]); caught=rest[i+1:]
name=os.path.basename(d.rstrip('/'))
dst=f'/verif/seeded/{prop}-{name}'
os.makedirs(dst,exist_ok=True)
for f in ('patch.diff','demo.rs','notes.md'):
    if os.path.exists(f'{d}/{f}'): shutil.copy(f'{d}/{f}',dst)
log=f'/tmp/seedverify/{name}.log'
ran="tools/verify_seed.sh (scratch worktree: demo passes without the change, build + demo fails with it, `cargo test --lib --tests` still passes with it); tools/try_seed.sh (patch applied to /repo, quick checks run, patch reverted)"
meta={"breaks":prop,"name":name,"needs_to_manifest":needs,"detected_by":caught,"what_i_ran":ran,"produced_by":"independent sub-agent given only the property text"}
if os.path.exists(log):
    shutil.copy(log,f'{dst}/verification.log')
json.dump(meta,open(f'{dst}/meta.json','w'),indent=1)
print(dst)
