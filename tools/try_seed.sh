#!/bin/bash
# usage: try_seed.sh <patch.diff> <tier> <PROP>... : apply the change to /repo, run the checks, undo it.
PATCH="$(readlink -f "$1")"; TIER="$2"; shift 2
cd /repo || exit 2
if [ -n "$(git status --porcelain --untracked-files=no)" ]; then echo "/repo is dirty"; exit 2; fi
git apply "$PATCH" || { echo "patch does not apply"; exit 3; }
for P in "$@"; do
  ( cd /verif && ./check "$P" "$TIER" 2>&1 | grep -E "VIOLATION|KNOWN-FINDING|MACHINERY|::|$P $TIER" | cut -c1-400 | head -12 ; echo "exit=${PIPESTATUS[0]}" )
done
git -C /repo checkout -- .
