#!/usr/bin/env python3
"""Regenerate /verif/MANIFEST.json from the list of claimed properties below."""
import json, subprocess
props=[json.loads(l) for l in open('/verif/properties.jsonl')]
E1="stateless model checking of the real code: deviation-bounded DFS over all scheduler and environment choices of real jobs under a controlled runtime"
E2="exhaustive small-scope enumeration of input histories / configurations of the real component against a reference model (bounded exhaustive exploration, no sampling)"
NOTE_ENV="Trusted: the environment model in src/verif of /repo (channels FIFO with capacity blocking and disconnect-after-drain, locks, barrier, virtual clock, virtual TCP as a reliable byte stream), sequential consistency at that seam, and the stated bounds."
claimed={
 'C01':("Every schedule within a stated deviation (delay) bound, under up to three canonical schedulers, of every enumerated well-formed program x input x configuration is executed on the real engine under the controlled runtime; each sink is compared with an independent sequential interpreter.",E1+" + exhaustive program enumeration"),
 'C02':("The observer hook at NetworkSender::send / NetworkReceiver::recv* records every batch; in every explored schedule (local and virtual-TCP remote layouts, short reads/writes as deviations) received elements are a prefix of sent elements per (producer, endpoint) at every instant and equal at the end. Batcher operation sequences and all segmentations of framed messages are enumerated exhaustively.",E1+"; "+E2),
 'C03':("For every connection kind x layout x key the send observer shows where each element and control marker goes; compared with the routing rule. Shuffle destinations enumerated completely.",E1),
 'C04':("Deadlock is a detected state of the controlled runtime: every schedule within the bound of every library job (chains, diamonds, joins, loops incl. nested and expanding bodies, empty and over-capacity inputs) must end with all tasks finished and every sink published once.",E1+" with deadlock detection"),
 'C05':("All grammar-conforming histories up to a length bound through every stateful operator (plus two-input operators under all select answers) checked against the grammar and against a fresh operator per iteration; probes after every operator of whole jobs under schedule exploration.",E2+"; "+E1),
 'C06':("All contract-respecting per-replica watermark/element sequences x all arrival interleavings through the real Start, and all contract-respecting histories through each operator; monitor: nothing at or below an emitted watermark.",E2),
 'C08':("Every pair of small input lists x join variant x algorithm through the real two-input Start with every answer of the two-way select enumerated (all arrival interleavings and end orders); interval joins as jobs under schedule exploration; oracle = nested-loop join.",E2+" with environment choices enumerated by the explorer; "+E1),
 'C07':("14 aggregation forms x all small keyed multisets x all assignments to source replicas x timestamped or not, also inside a 2-round replay, as real jobs under schedule exploration; a probe right after the aggregation checks one result per key per iteration, its value against a sequential fold and its timestamp.",E1+" + exhaustive input/partitioning enumeration"),
 'C09':("split / route / merge / broadcast / zip jobs for all small shapes (branch counts, length pairs, parallelism, capacity 1 to make one branch slow) under schedule exploration, oracles literally from the statement.",E1),
 'C10':("replay/iterate jobs with bodies that read the loop state; every state read of every replica in every explored schedule (incl. remote layouts where the state broadcast crosses hosts) is compared with the sequential loop's state of that round; vector-clock race detector on the UnsafeCell state.",E1+" + happens-before race detection in the model"),
 'C11':("loops whose body merges/joins an outside stream: per-round body output must equal what the complete side input gives, in every explored schedule (which decides when side batches are cached).",E1),
 'C16':("single-replica chains across 1-4 block boundaries for six batch modes and two capacities under schedule exploration (sink order = iterator-chain order); all contract-respecting histories through reorder().",E1+"; "+E2),
 'C18':("virtual clock: a harness task feeds a channel source and stays idle; with adaptive batching every element must reach the sink while the source is open (a withheld element = detected deadlock) and within a bounded virtual latency; early timer firings are deviations.",E1+" with a virtual clock (timer order enumerated)"),
 'C20':("crash-point enumeration x schedule exploration: injected panic at (operator position, replica, k-th element) in acyclic jobs; execute_blocking must fail, no downstream sink may publish, no worker may stay blocked.",E1+" x exhaustive crash-point enumeration"),
 'C12':("All histories over {key0, key1, end-of-iteration} up to the length bound for every 1<=S<=N<=5, exact/non-exact, six aggregators, through the real keyed count-window operator, compared with reference sliding groups.",E2),
 'C13':("All contract-respecting histories (out-of-order arrivals, boundary watermarks, iteration ends) up to the length bound for sizes 1..4 and slides 1..size through the real event-time window operator; all command sequences for transaction windows.",E2),
 'C14':("Driver-owned virtual clock: all step sequences (delay from a boundary grid, then element) with an end of iteration at every position through the real processing-time and session window operators; conservation/coverage oracle.",E2+" with the virtual clock as an enumerated environment answer"),
 'C15':("All file contents over a small alphabet up to a length bound x replica counts for FileSource and CsvSource (driven replica by replica with real metadata), all boundary-grid ranges x peers for the ten integer range sources.",E2),
 'C17':("Same driver as C06 with a reference tracker (min over active replicas): every rise of the minimum must be followed by that watermark before the next element.",E2),
 'C19':("Configuration enumeration without starting threads: program library x 43 host layouts x every host id; the execution-graph dumps must agree and be well-formed.",E2+" (all configurations of the stated grid)"),
}
import os
head=subprocess.check_output(['git','-C','/repo','log','--format=%h %s']).decode().splitlines()
hooks=[l.split()[0] for l in head if l.split(' ',1)[1].startswith('verif:')]
checks=[]
for pid,(text,tech) in sorted(claimed.items()):
    checks.append({"property_id":pid,"quick_cmd":f"./check {pid} quick","thorough_cmd":f"./check {pid} thorough",
     "evidence_file":f"/verif/evidence/{pid}.json","replay_cmd_template":"./check --replay {path}","engine":"nv",
     "level_claimed":{"category":"model_checking","text":text,"design_ref":"DESIGN.md §5 "+pid},"level_note":NOTE_ENV,"technique":tech})
m={"version":1,"setup_cmd":"./check --setup",
 "hooks":{"guard":"cargo feature `verif` of renoir","enable":"the harness crate depends on renoir with features=[\"verif\"] as a path dependency on /repo and is rebuilt by every check","baseline_off_cmd":"./check --baseline-off","source_commits":hooks,"add_only":True},
 "engines":[{"name":"nv","path":"/verif/harness","serves_properties":sorted(claimed),"kind_free_text":"controlled-scheduler exploration of real renoir jobs (shuttle-engine coroutines, own deviation-bounded DFS scheduler, virtual clock and TCP) and exhaustive small-scope enumeration of operator histories, all against the real code"}],
 "checks":checks,
 "not_applicable":[{"property_id":p['id'],"reason":"check not built yet (work in progress; planned in DESIGN.md §5)"} for p in props if p['id'] not in claimed],
 "notes":"see DESIGN.md; known findings in known_findings.json; seeded changes in seeded/"}
json.dump(m,open('/verif/MANIFEST.json','w'),indent=1)
print(len(checks),'checks claimed; hooks',hooks)
