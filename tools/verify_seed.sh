#!/bin/bash
# usage: [WT=<scratch worktree>] verify_seed.sh <dir with patch.diff and demo.rs> ; confirms in a scratch worktree that the
# change compiles, the demo fails with it and passes without it, and the unit + integration tests
# of the stable baseline still pass with it. (Tests run in a private network namespace: the remote
# tests of the suite bind fixed loopback ports and clash with anything else running them.)
set -u
SEED="$(cd "$1" && pwd)"
WT="${WT:-/tmp/wt-verify}"
export CARGO_TARGET_DIR="${WT_TARGET:-$WT/target}"
export CARGO_NET_OFFLINE=true
export RSTREAM_TEST_TIMEOUT=300
NS="unshare -n sh -c"
if ! unshare -n true 2>/dev/null; then NS="sh -c"; fi
if [ ! -d "$WT" ]; then git -C /repo worktree add -q --detach "$WT" HEAD; fi
cd "$WT" && git checkout -q --detach "$(git -C /repo rev-parse HEAD)" && git checkout -q -- . && git clean -fdq tests src
cp "$SEED/demo.rs" tests/seed_demo.rs
echo "== demo WITHOUT the change"
$NS "ip link set lo up 2>/dev/null; cargo test --offline --test seed_demo 2>&1" | grep -E "^test |test result|error" | head -20
if ! git apply --check "$SEED/patch.diff" 2>/dev/null; then echo "PATCH DOES NOT APPLY"; exit 3; fi
git apply "$SEED/patch.diff"
echo "== build WITH the change"
cargo build --offline 2>&1 | grep -E "^error|Finished" | head -5
echo "== demo WITH the change"
$NS "ip link set lo up 2>/dev/null; cargo test --offline --test seed_demo 2>&1" | grep -E "^test |test result|error" | head -20
rm tests/seed_demo.rs
echo "== existing tests WITH the change (lib + integration, no doc tests)"
$NS "ip link set lo up 2>/dev/null; cargo test --offline --no-fail-fast --lib --tests 2>&1" | grep -E "^test .*FAILED|test result" | sort | uniq -c | sort -rn | head -40
git checkout -q -- . 
