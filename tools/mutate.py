#!/usr/bin/env python3
"""Diagnostic (not a deciding check): apply small syntactic mutations to a scratch copy of noir and
see which of them the quick checks do not notice. Usage: mutate.py <n> <seed> [file-substring...]
Works in /tmp/mut (scratch worktree of /repo + copy of the harness pointing at it)."""
import os, re, random, subprocess, sys, json, time
MUT='/tmp/mut'; REPO=MUT+'/repo'; H=MUT+'/harness'; VD=MUT+'/verif'
n=int(sys.argv[1]); seed=int(sys.argv[2]); only=sys.argv[3:]
random.seed(seed)
props=[json.loads(l) for l in open('/verif/properties.jsonl')]
file_props={}
for p in props:
    for f in p['anchors']['files']:
        file_props.setdefault(f,[]).append(p['id'])
OPS=[(r' < ',' <= '),(r' <= ',' < '),(r' > ',' >= '),(r' >= ',' > '),(r' == ',' != '),(r' != ',' == '),
     (r' && ',' || '),(r' \|\| ',' && '),(r' \+ 1\b',' + 0'),(r' - 1\b',' - 0'),(r' \+= 1;',' += 0;'),(r' -= 1;',' -= 0;'),
     (r'\btrue\b','false'),(r'\bfalse\b','true'),(r'\.is_some\(\)','.is_none()'),(r'\.is_none\(\)','.is_some()'),
     (r'\.is_empty\(\)','.len() == 1'),(r'\bmin\(','max('),(r'\bmax\(','min('),(r'\.pop_front\(\)','.pop_back()'),
     (r'\.push_back\(','.push_front(')]
cands=[]
for f,ps in sorted(file_props.items()):
    if only and not any(o in f for o in only): continue
    path=f'{REPO}/{f}'
    if not os.path.exists(path): continue
    lines=open(path).read().split('\n')
    intest=False
    for i,l in enumerate(lines):
        if '#[cfg(test)]' in l: intest=True
        if intest: continue
        st=l.strip()
        if st.startswith('//') or st.startswith('#[') or 'log::' in st or 'debug_assert' in st or 'panic!' in st or 'unreachable!' in st or 'assert!' in st: continue
        if 'cfg(feature = "verif")' in l or 'verif' in l: continue
        # patterns found equivalent w.r.t. the properties in the first sweep (log-only state, order of unordered output)
        if 'self.coord =' in l or '.count = ' in l or '.count += ' in l or 'self.buffer.push_back' in l or 'tokio' in l: continue
        for pat,rep in OPS:
            for m in re.finditer(pat,l):
                # skip generics / lifetimes for < and >
                if pat in (r' < ',r' > ') and ('<' in l and '>' in l and ('fn ' in l or 'impl' in l or '::<' in l)): continue
                cands.append((f,i,m.start(),m.end(),rep,ps))
        # statement deletion
        if re.match(r'^\s*self\.[a-z_\.]+(\(.*\))?( = .*| \+= .*| -= .*)?;$',l) or re.match(r'^\s*self\.[a-z_\.]+\.(clear|reset|push|push_back|insert|remove|flush|extend)\(.*\);$',l):
            cands.append((f,i,-1,-1,'DELETE',ps))
random.shuffle(cands)
print(f'{len(cands)} candidate mutations', flush=True)
def sh(cmd,cwd=None,timeout=1800,env=None):
    e=dict(os.environ); e['CARGO_NET_OFFLINE']='true'
    if env: e.update(env)
    return subprocess.run(cmd,shell=True,cwd=cwd,capture_output=True,text=True,timeout=timeout,env=e)
results=[]
done=0
for (f,i,a,b,rep,ps) in cands:
    if done>=n: break
    path=f'{REPO}/{f}'
    orig=open(path).read()
    lines=orig.split('\n')
    old=lines[i]
    if rep=='DELETE': lines[i]=re.match(r'^\s*',old).group(0)+'// (mutated) '+old.strip()
    else: lines[i]=old[:a]+rep+old[b:]
    open(path,'w').write('\n'.join(lines))
    try:
        r=sh('cargo build --release 2>&1 | grep -E "^error" | head -3',cwd=H)
        if r.stdout.strip():
            continue   # does not compile
        done+=1
        killed=None
        order=ps+[p for p in ['C01','C04','C05','C20','C10'] if p not in ps]
        t0=time.time()
        for p in order:
            try:
                r=sh(f'{H}/target/release/nv check {p} quick 2>&1 | grep -E "^VIOLATION|^MACHINERY" | head -2',env={'VERIF_DIR':VD,'NV_BUDGET_S':'40'},timeout=400)
            except subprocess.TimeoutExpired:
                sh('pkill -f /tmp/mut/harness/target/release/nv')
                killed=p+'(HUNG-CHECK)'; break
            if 'VIOLATION' in r.stdout:
                killed=p; break
            if 'MACHINERY' in r.stdout:
                killed=p+'(machinery)'; break
        rec={'file':f,'line':i+1,'old':old.strip(),'new':lines[i].strip(),'anchored':ps,'killed_by':killed,'secs':round(time.time()-t0)}
        results.append(rec)
        print(json.dumps(rec),flush=True)
    finally:
        open(path,'w').write(orig)
surv=[r for r in results if not r['killed_by']]
print(f'SUMMARY: {len(results)} compiled mutants, {len(results)-len(surv)} noticed, {len(surv)} not noticed',flush=True)
